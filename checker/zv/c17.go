package zv

import (
	"go/constant"
	"go/token"
	"go/types"
	"strings"

	"golang.org/x/tools/go/ssa"
)

const ZapioPath = "go.uber.org/zap/zapio"

func init() {
	Props["C17"] = Prop{
		Title: "zapio.Writer logs exactly the lines of the byte stream, however it is chunked",
		Fn:    checkC17,
		Explanation: "The core claim (all streams × all partitions) is a statement about runtime values and is NOT decided as a whole. Decided, by exploring every path of Write (its helpers inline, the loop walked for up to three newline-delimited pieces of one chunk, every condition that is not evident forked) and matching the sequence of effects against the line protocol: the level gate is asked afresh on every call and a disabled level returns (len(p), nil) without buffering or logging; each piece is searched for its first newline; without one the whole piece is appended (copied) to the buffer and the loop ends; with one, the part before it is the line - logged directly exactly when nothing is buffered, otherwise appended, the buffer logged and then reset - and the next piece is exactly the part after that newline; (len(p), nil) with p the original parameter is returned on every path; the caller's slice is never stored. Sync logs the pending partial line exactly when the buffer is non-empty (no empty message for a trailing newline) and resets it; Close goes through Sync. Whichever functions the code is split into does not matter. " +
			"NOT decided: chunks with more than three newlines are covered only in so far as the per-piece step does not depend on the piece number (it cannot: the only state carried over is the buffer); equality of the logged messages with the stream's lines as values.",
		Assumptions: commonAssumptions,
	}
}

func checkC17(c *Ctx) {
	c.Rule("R17.1", "Write: by path exploration over up to three newline-delimited pieces of a chunk - every piece is handled by the line protocol, the next piece is exactly the rest after the newline, and (len(original), nil) is returned", 2)
	c.Rule("R17.2", "nothing is buffered or logged while the level is disabled (the gate is asked afresh on every Write)", 1)
	c.Rule("R17.3", "empty-line policy: a line completed by a newline is always logged (even if empty); Sync/Close log the pending partial line only when it is non-empty, and reset the buffer", 2)
	c.Rule("R17.4", "fast path only when nothing is buffered; otherwise the fragment is appended before the buffered line is logged, and the buffer is reset afterwards", 1)
	c.Rule("R17.5", "kept bytes are copies: the writer never stores the caller's slice", 1)

	wr := c.Method(ZapioPath, "Writer", "Write")
	sy := c.Method(ZapioPath, "Writer", "Sync")
	cl := c.Method(ZapioPath, "Writer", "Close")
	wn := c.Named(ZapioPath, "Writer")
	if !c.Anchor("R17.1", "zapio.Writer.Write/Sync/Close", wr != nil && sy != nil && cl != nil && wn != nil) {
		return
	}
	// the writer's partial-line buffer: its one field of type bytes.Buffer or []byte
	bufField := "buff"
	if stt, ok := wn.Underlying().(*types.Struct); ok {
		for i := 0; i < stt.NumFields(); i++ {
			t := TypeName(stt.Field(i).Type())
			if t == "bytes.Buffer" || t == "[]byte" || t == "*bytes.Buffer" {
				bufField = stt.Field(i).Name()
			}
		}
	}
	explore := func(fn *ssa.Function) ([]string, bool, int) {
		rn := fn.Params[0].Name()
		resolve := func(st *ConcState, v ssa.Value) ssa.Value {
			for k := 0; k < 16; k++ {
				switch x := v.(type) {
				case *ssa.ChangeType:
					v = x.X
					continue
				case *ssa.MakeInterface:
					v = x.X
					continue
				}
				nx := st.Step(v)
				if nx == nil {
					break
				}
				v = nx
			}
			return v
		}
		isBuf := func(st *ConcState, v ssa.Value) bool {
			d := st.Desc(v)
			return d == rn+"."+bufField || d == "&"+rn+"."+bufField || strings.HasSuffix(d, rn+"."+bufField)
		}
		// canon renders a value as it stood when it was bound on this path (ConcState.Desc keeps such snapshots); the
		// writer's buffer contents are rendered "buf"
		canon := func(st *ConcState, v ssa.Value, d int) string {
			if v == nil {
				return ""
			}
			r := resolve(st, v)
			switch x := r.(type) {
			case *ssa.Call:
				a := Args(x)
				if IsCallTo(x, "(*bytes.Buffer).Bytes") && isBuf(st, a[0]) {
					return "buf"
				}
			case *ssa.UnOp:
				if x.Op == token.MUL && isBuf(st, x.X) {
					return "buf"
				}
			case *ssa.Const:
				if x.Value == nil {
					return "nil"
				}
			}
			s := st.Desc(v)
			for strings.HasPrefix(s, "conv[string](") && strings.HasSuffix(s, ")") {
				s = strings.TrimSuffix(strings.TrimPrefix(s, "conv[string]("), ")")
			}
			for _, b := range []string{"Bytes(" + rn + "." + bufField + ")", "Bytes(&" + rn + "." + bufField + ")", "String(" + rn + "." + bufField + ")", "String(&" + rn + "." + bufField + ")", rn + "." + bufField} {
				if s == b {
					return "buf"
				}
			}
			return s
		}
		cut := 0
		seqs, trunc := ConcPaths(fn, ConcCfg{
			MaxIter: 3, Cut: &cut, MaxStates: 400000,
			Event: func(in ssa.Instruction, st *ConcState) string {
				switch x := in.(type) {
				case *ssa.Call:
					a := Args(x)
					switch {
					case IsCallTo(x, "(*go.uber.org/zap.Logger).Check", "(*go.uber.org/zap.Logger).Log") && len(a) >= 3:
						if st.Desc(a[1]) != rn+".Level" {
							return "log-at(" + st.Desc(a[1]) + ")"
						}
						return "log(" + canon(st, a[2], 0) + ")"
					case IsCallTo(x, "(*bytes.Buffer).Write", "(*bytes.Buffer).WriteString") && isBuf(st, a[0]):
						return "buf+=" + canon(st, a[1], 0)
					case IsCallTo(x, "(*bytes.Buffer).Reset") && isBuf(st, a[0]):
						return "buf-reset"
					case IsCallTo(x, "(*bytes.Buffer).Truncate") && isBuf(st, a[0]):
						if k, ok := st.Int(a[1]); ok && k == 0 {
							return "buf-reset"
						}
						return "buf?Truncate"
					case IsCallTo(x, "(*bytes.Buffer).WriteByte", "(*bytes.Buffer).Next", "(*bytes.Buffer).ReadFrom") && isBuf(st, a[0]):
						return "buf?" + CalleeFunc(x).Name()
					case IsCallTo(x, "(*go.uber.org/zap/zapio.Writer).Sync"):
						return "sync"
					}
				case *ssa.Store:
					if fa, ok := x.Addr.(*ssa.FieldAddr); ok && fieldName(fa.X.Type(), fa.Field) == bufField {
						// a []byte buffer: append(copy) / truncate / anything else
						v := resolve(st, x.Val)
						if ap, ok := v.(*ssa.Call); ok && CallBuiltin(ap) == "append" && canon(st, ap.Call.Args[0], 0) == "buf" {
							return "buf+=" + canon(st, ap.Call.Args[1], 0)
						}
						if sl, ok := v.(*ssa.Slice); ok && canon(st, sl.X, 0) == "buf" && sl.Low == nil && sl.High != nil {
							if k, ok := st.Int(sl.High); ok && k == 0 {
								return "buf-reset"
							}
						}
						if n, known := st.IsNil(x.Val); known && n {
							return "buf-reset"
						}
						return "buf=" + canon(st, x.Val, 0)
					}
				case *ssa.Return:
					var parts []string
					for _, r := range x.Results {
						if n, known := st.IsNil(r); known && n {
							parts = append(parts, "nil")
						} else {
							parts = append(parts, canon(st, r, 0))
						}
					}
					return "ret(" + strings.Join(parts, ",") + ")"
				}
				return ""
			},
			Branch: func(cond ssa.Value, taken bool, st *ConcState) string {
				pol := taken
				for k := 0; k < 8; k++ {
					if u, ok := cond.(*ssa.UnOp); ok && u.Op == token.NOT {
						cond, pol = u.X, !pol
						continue
					}
					if nx := st.Step(cond); nx != nil {
						cond = nx
						continue
					}
					break
				}
				tf := func(n string, v bool) string {
					if v {
						return n + "=T"
					}
					return n + "=F"
				}
				if cl, ok := cond.(*ssa.Call); ok && isEnabledCall(cl) {
					if st.Desc(Args(cl)[len(Args(cl))-1]) != rn+".Level" {
						return "gate?(" + st.Desc(cl) + ")"
					}
					return tf("enabled", pol)
				}
				if ex, ok := cond.(*ssa.Extract); ok {
					if cc, ok := ex.Tuple.(*ssa.Call); ok && IsCallTo(cc, "bytes.Cut") && ex.Index == 2 {
						if sep, ok := c.constByteSlice(Args(cc)[1]); ok && string(sep) == "\n" {
							return tf("nl("+canon(st, Args(cc)[0], 0)+")", pol)
						}
					}
				}
				bo, ok := cond.(*ssa.BinOp)
				if !ok {
					return "cond?" + st.Desc(cond)
				}
				if lc, ok := resolve(st, bo.X).(*ssa.Call); ok && IsCallTo(lc, "(*go.uber.org/zap.Logger).Check") && IsNilConst(bo.Y) {
					return "" // whether the logger accepted the message is the logger's business
				}
				x, y, op := canon(st, bo.X, 0), canon(st, bo.Y, 0), bo.Op
				if strings.HasPrefix(y, "IndexByte(") || strings.HasPrefix(y, "len(") {
					x, y, op = y, x, swapOp(op)
				}
				switch {
				case strings.HasPrefix(x, "IndexByte(") && strings.HasSuffix(x, ", 10)"):
					ch := strings.TrimSuffix(strings.TrimPrefix(x, "IndexByte("), ", 10)")
					switch {
					case y == "0" && op == token.LSS, y == "-1" && op == token.EQL, y == "-1" && op == token.LEQ:
						return tf("nl("+ch+")", !pol)
					case y == "0" && op == token.GEQ, y == "-1" && op == token.NEQ, y == "-1" && op == token.GTR:
						return tf("nl("+ch+")", pol)
					}
				case (x == "len(buf)" || x == "len("+rn+"."+bufField+")" || x == "Len("+rn+"."+bufField+")" || x == "Len(&"+rn+"."+bufField+")") && y == "0":
					switch op {
					case token.EQL, token.LEQ:
						return tf("buf-empty", pol)
					case token.GTR, token.NEQ:
						return tf("buf-empty", !pol)
					}
				case strings.HasPrefix(x, "len(") && y == "0":
					ch := strings.TrimSuffix(strings.TrimPrefix(x, "len("), ")")
					switch op {
					case token.GTR, token.NEQ:
						return tf("more("+ch+")", pol)
					case token.EQL, token.LEQ:
						return tf("more("+ch+")", !pol)
					}
				}
				// bytes.Buffer.Len() == 0
				if lc, ok := resolve(st, bo.X).(*ssa.Call); ok && IsCallTo(lc, "(*bytes.Buffer).Len") && isBuf(st, Args(lc)[0]) && y == "0" {
					switch op {
					case token.EQL, token.LEQ:
						return tf("buf-empty", pol)
					case token.GTR, token.NEQ:
						return tf("buf-empty", !pol)
					}
				}
				return "cond?" + st.Desc(cond)
			},
		})
		return seqs, trunc, cut
	}

	// ---------------- Write ----------------
	p := writeParam(wr)
	seqs, trunc, cut := explore(wr)
	if trunc || len(seqs) == 0 || p == nil {
		c.Und("R17.1", wr.String(), "paths", wr.Pos(), "path exploration of Write incomplete (%d sequences, truncated=%v)", len(seqs), trunc)
		return
	}
	P := p.Name()
	wantRet := "ret(len(" + P + "),nil)"
	var badGate, badLine, badRet, badKeep []string
	nLines := 0
	for _, sq := range seqs {
		toks := strings.Split(sq, " ; ")
		i := 0
		next := func() string {
			if i < len(toks) {
				i++
				return toks[i-1]
			}
			return "<end>"
		}
		peek := func() string {
			if i < len(toks) {
				return toks[i]
			}
			return "<end>"
		}
		for _, t := range toks {
			if strings.HasPrefix(t, "buf=") {
				badKeep = append(badKeep, sq)
			}
		}
		t := next()
		if t == "enabled=F" {
			if next() != wantRet || peek() != "<end>" {
				badGate = append(badGate, sq)
			}
			continue
		}
		if t != "enabled=T" {
			badGate = append(badGate, sq)
			continue
		}
		C := P
		ok := true
		why := ""
		for ok {
			t = next()
			if t == "more("+C+")=F" || (C == "nil" && strings.HasPrefix(t, "ret(")) {
				if strings.HasPrefix(t, "ret(") {
					i--
				}
				break
			}
			if strings.HasPrefix(t, "ret(") && C != P {
				// the loop condition was evident (nothing left)
				i--
				break
			}
			if t != "more("+C+")=T" {
				ok, why = false, "expected the loop test on "+C+", found "+t
				break
			}
			t = next()
			switch t {
			case "nl(" + C + ")=F":
				if n := next(); n != "buf+="+C {
					ok, why = false, "a piece without newline must be appended whole to the buffer, found "+n
				}
				C = "nil"
				// the loop ends: either its condition is evident or a break was taken
				if strings.HasPrefix(peek(), "more(") {
					if n := next(); !strings.HasSuffix(n, "=F") {
						ok, why = false, "the loop continues after the unterminated rest was buffered: "+n
					}
				}
				goto done
			case "nl(" + C + ")=T":
				nLines++
				line, rest := C+"[:IndexByte("+C+", 10)]", C+"[(IndexByte("+C+", 10) + 1):]"
				lineAlt, restAlt := "", ""
				for _, tk := range toks {
					// the same split taken from bytes.Cut(C, "\n")
					if strings.HasPrefix(tk, "log(Cut("+C+", ") && strings.HasSuffix(tk, ")#0)") {
						lineAlt = strings.TrimSuffix(strings.TrimPrefix(tk, "log("), ")")
					}
					if strings.HasPrefix(tk, "buf+=Cut("+C+", ") && strings.HasSuffix(tk, ")#0") {
						lineAlt = strings.TrimPrefix(tk, "buf+=")
					}
				}
				if lineAlt != "" {
					line, restAlt = lineAlt, strings.TrimSuffix(lineAlt, "#0")+"#1"
					rest = restAlt
				}
				switch n := next(); n {
				case "buf-empty=T":
					if n2 := next(); n2 != "log("+line+")" {
						ok, why = false, "with nothing buffered the line "+line+" is logged directly; found "+n2
					}
				case "buf-empty=F":
					n2 := next()
					for strings.HasPrefix(peek(), "buf-empty=") {
						next() // re-testing the buffer after the append changes nothing: a completed line is logged even if empty
					}
					n3, n4 := next(), next()
					if n2 != "buf+="+line || n3 != "log(buf)" || n4 != "buf-reset" {
						ok, why = false, "with a partial line buffered: append "+line+", log the buffer, reset it; found "+n2+" ; "+n3+" ; "+n4
					}
				default:
					ok, why = false, "after finding a newline the buffer's emptiness decides; found "+n
				}
				C = rest
			default:
				ok, why = false, "expected the newline search on "+C+", found "+t
			}
		}
	done:
		if ok {
			if n := next(); n != wantRet || peek() != "<end>" {
				badRet = append(badRet, sq)
			}
		} else {
			badLine = append(badLine, why+" ("+sq+")")
		}
	}
	lim := func(l []string) []string {
		if len(l) > 3 {
			return append(l[:3:3], "… "+itoa(len(l)-3)+" more")
		}
		return l
	}
	c.Check(len(badLine) == 0 && nLines > 0, "R17.1", wr.String(), "line-protocol", wr.Pos(), "over %d paths (helpers inline, up to 3 pieces per chunk; %d longer paths cut): each piece is searched for its first newline; without one the whole piece is appended to the buffer and the loop ends; with one, the part before it is the line (logged directly when nothing is buffered, else appended, the buffer logged and reset) and the next piece is exactly the part after it: %v", len(seqs), cut, lim(badLine))
	c.Check(len(badRet) == 0, "R17.1", wr.String(), "consumes-all", wr.Pos(), "every path returns (len(%s), nil) with %s the original parameter: %v", P, P, lim(badRet))
	c.Check(len(badGate) == 0, "R17.2", wr.String(), "level-gate", wr.Pos(), "Write first asks the logger's core whether the writer's level is enabled (afresh on every call) and, if not, returns (len(%s), nil) without buffering or logging: %v", P, lim(badGate))
	c.Check(len(badLine) == 0, "R17.4", wr.String(), "fast-path-only-when-empty", wr.Pos(), "same exploration: the direct log is taken only on the buffer-empty branch; otherwise the fragment joins the buffer before the buffered line is logged, and the buffer is reset afterwards")
	c.Check(len(badKeep) == 0 && len(badLine) == 0, "R17.5", wr.String(), "no-retained-caller-slice", wr.Pos(), "same exploration: the buffer only ever grows by copying (bytes.Buffer.Write / append(buf, piece...)); the caller's slice is never stored: %v", lim(badKeep))

	// ---------------- Sync / Close ----------------
	sseqs, strunc, _ := explore(sy)
	var badSync []string
	for _, sq := range sseqs {
		switch sq {
		case "buf-empty=F ; log(buf) ; buf-reset ; ret(nil)", "buf-empty=T ; buf-reset ; ret(nil)", "buf-empty=T ; ret(nil)":
		default:
			badSync = append(badSync, sq)
		}
	}
	c.Check(!strunc && len(sseqs) >= 2 && len(badSync) == 0, "R17.3", sy.String(), "flushes-partial-line-only-if-non-empty", sy.Pos(), "Sync logs the pending partial line exactly when the buffer is non-empty (no empty message for a trailing newline), resets the buffer and returns nil: %v", badSync)
	cseqs, ctrunc, _ := explore(cl)
	okClose := !ctrunc && len(cseqs) > 0
	for _, sq := range cseqs {
		if sq != "sync ; ret(sync)" && sq != "sync ; ret(nil)" && !strings.HasPrefix(sq, "sync ; ret(") {
			okClose = false
		}
	}
	c.Check(okClose, "R17.3", cl.String(), "close-is-sync", cl.Pos(), "Close flushes through Sync on every path: %v", cseqs)
}

func (c *Ctx) constByteSlice(v ssa.Value) ([]byte, bool) {
	v = Strip(v)
	switch x := v.(type) {
	case *ssa.Convert:
		if k, ok := x.X.(*ssa.Const); ok && k.Value != nil && k.Value.Kind() == constant.String {
			return []byte(constant.StringVal(k.Value)), true
		}
	case *ssa.Slice:
		al, ok := x.X.(*ssa.Alloc)
		if !ok || x.Low != nil || x.High != nil {
			return nil, false
		}
		arr, ok := al.Type().Underlying().(*types.Pointer).Elem().Underlying().(*types.Array)
		if !ok {
			return nil, false
		}
		out := make([]byte, arr.Len())
		for _, r := range *al.Referrers() {
			switch y := r.(type) {
			case *ssa.Slice:
				if y != x {
					return nil, false
				}
			case *ssa.IndexAddr:
				k, ok := ConstInt(y.Index)
				if !ok {
					return nil, false
				}
				for _, rr := range *y.Referrers() {
					st, ok := rr.(*ssa.Store)
					if !ok || st.Addr != ssa.Value(y) {
						return nil, false
					}
					bv, ok := ConstInt(st.Val)
					if !ok {
						return nil, false
					}
					out[k] = byte(bv)
				}
			default:
				return nil, false
			}
		}
		return out, true
	case *ssa.UnOp:
		g, ok := x.X.(*ssa.Global)
		if !ok || x.Op != token.MUL {
			return nil, false
		}
		var val ssa.Value
		n := 0
		bad := false
		c.EachRootFunc(func(fn *ssa.Function) {
			AllInstrs(fn, func(i ssa.Instruction) {
				switch y := i.(type) {
				case *ssa.Store:
					if y.Addr == ssa.Value(g) {
						n++
						val = y.Val
						if fn.Name() != "init" {
							bad = true
						}
					}
				case *ssa.UnOp:
					// a load of the variable that is indexed for writing, or passed anywhere but as a read-only argument, is not tracked: require all loads to be call arguments of std functions or this same use
					if y.X == ssa.Value(g) && y.Op == token.MUL {
						for _, r := range *y.Referrers() {
							if ia, ok := r.(*ssa.IndexAddr); ok {
								for _, rr := range *ia.Referrers() {
									if st, ok := rr.(*ssa.Store); ok && st.Addr == ssa.Value(ia) {
										bad = true
									}
								}
							}
						}
					}
				}
			})
		})
		if n == 1 && !bad {
			return c.constByteSlice(val)
		}
	}
	return nil, false
}
