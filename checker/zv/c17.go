package zv

import (
	"fmt"
	"go/constant"
	"go/token"
	"go/types"
	"os"
	"strconv"
	"strings"

	"golang.org/x/tools/go/ssa"
)

const ZapioPath = "go.uber.org/zap/zapio"

func init() {
	Props["C17"] = Prop{
		Title: "zapio.Writer logs exactly the lines of the byte stream, however it is chunked",
		Fn:    checkC17,
		Explanation: "The core claim (all streams × all partitions) is a statement about runtime values and is NOT decided as a whole. Decided, by bounded concrete path exploration of Write on the program's SSA form (no execution: helpers are walked inline, slices of the chunk are tracked as byte intervals, wherever the code searches a piece for a newline every position of the first newline and 'none' is tried, and whether a partial line is pending is left open): for a 4-byte chunk and every one of the 16 newline placements, with and without a pending partial line, the messages handed to the logger are exactly the completed lines of (pending ++ chunk), in order, empty lines included, the first one including whatever was pending; what remains buffered is exactly the unterminated rest; nothing buffered is dropped unlogged; (len(p), nil) is returned; the level gate is asked afresh on every call and a disabled level returns (len(p), nil) without buffering or logging; the caller's slice is never stored. Sync logs the pending partial line exactly when the buffer is non-empty (no empty message for a trailing newline) and resets it; Close goes through Sync. How the code keeps its position (re-slicing, offsets, bytes.Cut), which functions it is split into and whether a fast path exists does not matter. " +
			"NOT decided: chunks longer than four bytes are covered only in so far as the per-line step does not depend on absolute positions; sequences of several Write calls are covered through the open 'pending' state of one call (the buffer is the only state carried over); equality of message bytes as values (messages are compared as intervals of the chunk).",
		Assumptions: commonAssumptions,
	}
}

func checkC17(c *Ctx) {
	c.Rule("R17.1", "Write: bounded concrete exploration (4-byte chunk, all newline placements, pending or not): logged messages = completed lines of pending++chunk, buffer = unterminated rest, returns (len, nil)", 2)
	c.Rule("R17.2", "nothing is buffered or logged while the level is disabled (the gate is asked afresh on every Write)", 1)
	c.Rule("R17.3", "empty-line policy: a line completed by a newline is always logged (even if empty); Sync/Close log the pending partial line only when it is non-empty, and reset the buffer", 2)
	c.Rule("R17.4", "fast path only when nothing is buffered; otherwise the fragment is appended before the buffered line is logged, and the buffer is reset afterwards", 1)
	c.Rule("R17.5", "kept bytes are copies: the writer never stores the caller's slice", 1)
	c.Rule("R17.6", "Write, Sync and Close are the only exported methods that reach the writer's state (no sibling entry point such as ReadFrom or WriteString, which io.Copy / io.WriteString would prefer)", 1)
	c17EntryPoints(c, "R17.6")

	c17Rules(c, "")
}

// c17Rules runs the zapio.Writer rules; with alias != "" every obligation is filed under that rule (the same
// decision procedure registered under another property it is a necessary condition of).
func c17Rules(c *Ctx, alias string) {
	R := func(id string) string {
		if alias != "" {
			return alias
		}
		return id
	}
	wr := c.Method(ZapioPath, "Writer", "Write")
	sy := c.Method(ZapioPath, "Writer", "Sync")
	cl := c.Method(ZapioPath, "Writer", "Close")
	wn := c.Named(ZapioPath, "Writer")
	if !c.Anchor(R("R17.1"), "zapio.Writer.Write/Sync/Close", wr != nil && sy != nil && cl != nil && wn != nil) {
		return
	}
	// the writer's partial-line buffer: its one field of type bytes.Buffer or []byte
	// (or such a field of an unexported struct of the package that the writer holds by value: bufField is then the
	// dotted path, bufLeaf the field's own name)
	bufField := "buff"
	isBufT := func(t types.Type) bool {
		n := TypeName(t)
		return n == "bytes.Buffer" || n == "[]byte" || n == "*bytes.Buffer"
	}
	if stt, ok := wn.Underlying().(*types.Struct); ok {
		for i := 0; i < stt.NumFields(); i++ {
			f := stt.Field(i)
			if isBufT(f.Type()) {
				bufField = FN(f)
			}
			if in, isN := types.Unalias(f.Type()).(*types.Named); isN && !f.Exported() && in.Obj().Pkg() != nil && in.Obj().Pkg().Path() == ZapioPath {
				if inner, isS := in.Underlying().(*types.Struct); isS {
					for j := 0; j < inner.NumFields(); j++ {
						if isBufT(inner.Field(j).Type()) {
							bufField = FN(f) + "." + FN(inner.Field(j))
						}
					}
				}
			}
		}
	}
	bufLeaf := bufField
	if i := strings.LastIndex(bufLeaf, "."); i >= 0 {
		bufLeaf = bufLeaf[i+1:]
	}
	explore := func(fn *ssa.Function, N int64) ([]string, bool, int) {
		rn := PN(fn.Params[0])
		wp := writeParam(fn)
		maxIter := 3
		if N > 0 {
			maxIter = int(N) + 1
		}
		iv := func(f SliceFact) string { return "[" + itoa(int(f.Lo)) + "," + itoa(int(f.Hi)) + ")" }
		resolve := func(st *ConcState, v ssa.Value) ssa.Value {
			for k := 0; k < 16; k++ {
				switch x := v.(type) {
				case *ssa.ChangeType:
					v = x.X
					continue
				case *ssa.MakeInterface:
					v = x.X
					continue
				}
				nx := st.Step(v)
				if nx == nil {
					break
				}
				v = nx
			}
			return v
		}
		isBuf := func(st *ConcState, v ssa.Value) bool {
			d := st.Desc(v)
			return d == rn+"."+bufField || d == "&"+rn+"."+bufField || strings.HasSuffix(d, rn+"."+bufField)
		}
		// canon renders a value as it stood when it was bound on this path (ConcState.Desc keeps such snapshots); the
		// writer's buffer contents are rendered "buf"
		canon := func(st *ConcState, v ssa.Value, d int) string {
			if v == nil {
				return ""
			}
			if f, ok := st.SliceOf(v); ok && wp != nil && f.Base == ssa.Value(wp) {
				return iv(f)
			}
			r := resolve(st, v)
			switch x := r.(type) {
			case *ssa.Call:
				a := Args(x)
				if IsCallTo(x, "(*bytes.Buffer).Bytes") && isBuf(st, a[0]) {
					return "buf"
				}
			case *ssa.UnOp:
				if x.Op == token.MUL && isBuf(st, x.X) {
					return "buf"
				}
			case *ssa.Const:
				if x.Value == nil {
					return "nil"
				}
			}
			s := st.Desc(v)
			for strings.HasPrefix(s, "conv[string](") && strings.HasSuffix(s, ")") {
				s = strings.TrimSuffix(strings.TrimPrefix(s, "conv[string]("), ")")
			}
			for _, b := range []string{"Bytes(" + rn + "." + bufField + ")", "Bytes(&" + rn + "." + bufField + ")", "String(" + rn + "." + bufField + ")", "String(&" + rn + "." + bufField + ")", rn + "." + bufField} {
				if s == b {
					return "buf"
				}
			}
			return s
		}
		cut := 0
		seqs, trunc := ConcPaths(fn, ConcCfg{
			MaxIter: maxIter, Cut: &cut, MaxStates: 400000,
			SliceLen: func(p *ssa.Parameter) (int64, bool) { return N, N > 0 && p == wp },
			Fork: func(in ssa.Instruction, st *ConcState) []ConcAlt {
				// where the first newline of a piece is: nowhere, or at each of its positions
				switch x := in.(type) {
				case *ssa.Call:
					isIdx := IsCallTo(x, "bytes.IndexByte") || IsCallTo(x, "bytes.IndexRune")
					isCut := IsCallTo(x, "bytes.Cut") || IsCallTo(x, "bytes.Index")
					if !isIdx && !isCut {
						return nil
					}
					a := Args(x)
					f, ok := st.SliceOf(a[0])
					if !ok {
						return nil
					}
					if isIdx {
						if k, known := st.Int(a[1]); !known || k != 10 {
							return nil
						}
					} else if sep, ok := c.constByteSlice(a[1]); !ok || string(sep) != "\n" {
						return nil
					}
					alts := []ConcAlt{{Ev: "search" + iv(f) + "=none", Ints: map[ssa.Value]int64{x: -1}}}
					for k := int64(0); k < f.Hi-f.Lo; k++ {
						alts = append(alts, ConcAlt{Ev: "search" + iv(f) + "=" + itoa(int(f.Lo+k)), Ints: map[ssa.Value]int64{x: k}})
					}
					return alts
				case *ssa.Extract:
					cl, ok := x.Tuple.(*ssa.Call)
					if !ok || !IsCallTo(cl, "bytes.Cut") {
						return nil
					}
					k, known := st.Int(cl)
					f, ok := st.SliceOf(Args(cl)[0])
					if !known || !ok {
						return nil
					}
					switch x.Index {
					case 0:
						if k < 0 {
							return []ConcAlt{{Slices: map[ssa.Value]SliceFact{x: f}}}
						}
						return []ConcAlt{{Slices: map[ssa.Value]SliceFact{x: {Base: f.Base, Lo: f.Lo, Hi: f.Lo + k}}}}
					case 1:
						if k < 0 {
							return []ConcAlt{{Nils: map[ssa.Value]bool{x: true}, Slices: map[ssa.Value]SliceFact{x: {Base: f.Base, Lo: f.Hi, Hi: f.Hi}}}}
						}
						return []ConcAlt{{Slices: map[ssa.Value]SliceFact{x: {Base: f.Base, Lo: f.Lo + k + 1, Hi: f.Hi}}}}
					case 2:
						if k < 0 {
							return []ConcAlt{{Ints: map[ssa.Value]int64{x: 0}}}
						}
						return []ConcAlt{{Ints: map[ssa.Value]int64{x: 1}}}
					}
				}
				return nil
			},
			Event: func(in ssa.Instruction, st *ConcState) string {
				switch x := in.(type) {
				case *ssa.Call:
					a := Args(x)
					switch {
					case IsCallTo(x, "(*go.uber.org/zap.Logger).Check", "(*go.uber.org/zap.Logger).Log") && len(a) >= 3:
						if st.Desc(a[1]) != rn+".Level" && st.Desc(resolve(st, a[1])) != rn+".Level" {
							return "log-at(" + st.Desc(a[1]) + ")"
						}
						return "log(" + canon(st, a[2], 0) + ")"
					case IsCallTo(x, "(*bytes.Buffer).Write", "(*bytes.Buffer).WriteString") && isBuf(st, a[0]):
						return "buf+=" + canon(st, a[1], 0)
					case IsCallTo(x, "(*bytes.Buffer).Reset") && isBuf(st, a[0]):
						return "buf-reset"
					case IsCallTo(x, "(*bytes.Buffer).Truncate") && isBuf(st, a[0]):
						if k, ok := st.Int(a[1]); ok && k == 0 {
							return "buf-reset"
						}
						return "buf?Truncate"
					case IsCallTo(x, "(*bytes.Buffer).WriteByte", "(*bytes.Buffer).Next", "(*bytes.Buffer).ReadFrom") && isBuf(st, a[0]):
						return "buf?" + FNm(CalleeFunc(x))
					case IsCallTo(x, "(*go.uber.org/zap/zapio.Writer).Sync"):
						return "sync"
					}
				case *ssa.Store:
					if fa, ok := x.Addr.(*ssa.FieldAddr); ok && fieldName(fa.X.Type(), fa.Field) == bufLeaf && isBuf(st, fa) {
						// a []byte buffer: append(copy) / truncate / anything else
						v := resolve(st, x.Val)
						if ap, ok := v.(*ssa.Call); ok && CallBuiltin(ap) == "append" && canon(st, ap.Call.Args[0], 0) == "buf" {
							return "buf+=" + canon(st, ap.Call.Args[1], 0)
						}
						if sl, ok := v.(*ssa.Slice); ok && canon(st, sl.X, 0) == "buf" && sl.Low == nil && sl.High != nil {
							if k, ok := st.Int(sl.High); ok && k == 0 {
								return "buf-reset"
							}
						}
						if n, known := st.IsNil(x.Val); known && n {
							return "buf-reset"
						}
						return "buf=" + canon(st, x.Val, 0)
					}
				case *ssa.Return:
					var parts []string
					for _, r := range x.Results {
						if n, known := st.IsNil(r); known && n {
							parts = append(parts, "nil")
						} else if k, known := st.Int(r); known && N > 0 {
							parts = append(parts, itoa(int(k)))
						} else {
							parts = append(parts, canon(st, r, 0))
						}
					}
					return "ret(" + strings.Join(parts, ",") + ")"
				}
				return ""
			},
			Branch: func(cond ssa.Value, taken bool, st *ConcState) string {
				pol := taken
				for k := 0; k < 8; k++ {
					if u, ok := cond.(*ssa.UnOp); ok && u.Op == token.NOT {
						cond, pol = u.X, !pol
						continue
					}
					if nx := st.Step(cond); nx != nil {
						cond = nx
						continue
					}
					break
				}
				tf := func(n string, v bool) string {
					if v {
						return n + "=T"
					}
					return n + "=F"
				}
				if cl, ok := cond.(*ssa.Call); ok && isEnabledCall(cl) {
					if lv := Args(cl)[len(Args(cl))-1]; st.Desc(lv) != rn+".Level" && st.Desc(resolve(st, lv)) != rn+".Level" {
						return "gate?(" + st.Desc(cl) + ")"
					}
					return tf("enabled", pol)
				}
				if ex, ok := cond.(*ssa.Extract); ok {
					if cc, ok := ex.Tuple.(*ssa.Call); ok && IsCallTo(cc, "bytes.Cut") && ex.Index == 2 {
						if sep, ok := c.constByteSlice(Args(cc)[1]); ok && string(sep) == "\n" {
							return tf("nl("+canon(st, Args(cc)[0], 0)+")", pol)
						}
					}
				}
				bo, ok := cond.(*ssa.BinOp)
				if !ok {
					return "cond?" + st.Desc(cond)
				}
				if lc, ok := resolve(st, bo.X).(*ssa.Call); ok && IsCallTo(lc, "(*go.uber.org/zap.Logger).Check") && IsNilConst(bo.Y) {
					return "" // whether the logger accepted the message is the logger's business
				}
				x, y, op := canon(st, bo.X, 0), canon(st, bo.Y, 0), bo.Op
				if strings.HasPrefix(y, "IndexByte(") || strings.HasPrefix(y, "len(") {
					x, y, op = y, x, swapOp(op)
				}
				switch {
				case strings.HasPrefix(x, "IndexByte(") && strings.HasSuffix(x, ", 10)"):
					ch := strings.TrimSuffix(strings.TrimPrefix(x, "IndexByte("), ", 10)")
					switch {
					case y == "0" && op == token.LSS, y == "-1" && op == token.EQL, y == "-1" && op == token.LEQ:
						return tf("nl("+ch+")", !pol)
					case y == "0" && op == token.GEQ, y == "-1" && op == token.NEQ, y == "-1" && op == token.GTR:
						return tf("nl("+ch+")", pol)
					}
				case (x == "len(buf)" || x == "len("+rn+"."+bufField+")" || x == "Len("+rn+"."+bufField+")" || x == "Len(&"+rn+"."+bufField+")") && y == "0":
					switch op {
					case token.EQL, token.LEQ:
						return tf("buf-empty", pol)
					case token.GTR, token.NEQ:
						return tf("buf-empty", !pol)
					}
				case strings.HasPrefix(x, "len(") && y == "0":
					ch := strings.TrimSuffix(strings.TrimPrefix(x, "len("), ")")
					switch op {
					case token.GTR, token.NEQ:
						return tf("more("+ch+")", pol)
					case token.EQL, token.LEQ:
						return tf("more("+ch+")", !pol)
					}
				}
				// bytes.Buffer.Len() == 0
				if lc, ok := resolve(st, bo.X).(*ssa.Call); ok && IsCallTo(lc, "(*bytes.Buffer).Len") && isBuf(st, Args(lc)[0]) && y == "0" {
					switch op {
					case token.EQL, token.LEQ:
						return tf("buf-empty", pol)
					case token.GTR, token.NEQ:
						return tf("buf-empty", !pol)
					}
				}
				return "cond?" + st.Desc(cond)
			},
		})
		return seqs, trunc, cut
	}

	// ---------------- Write ----------------
	// Bounded concrete exploration: the chunk has N bytes; wherever the code searches a piece for a newline, every
	// position of the first newline (and "none") is tried; whether a partial line is pending is open. Each path is the
	// run of Write on one concrete newline placement; what it logs and leaves buffered is compared with the lines of
	// (pending ++ chunk).
	N := depth(4, 6)
	p := writeParam(wr)
	seqs, trunc, cut := explore(wr, int64(N))
	if trunc || len(seqs) == 0 || p == nil {
		c.Und(R("R17.1"), FStr(wr), "paths", wr.Pos(), "path exploration of Write incomplete (%d sequences, truncated=%v)", len(seqs), trunc)
		return
	}
	if os.Getenv("ZV_DEBUG") != "" {
		for _, sq := range seqs {
			fmt.Println("SEQ17", sq)
		}
	}
	type span struct{ lo, hi int }
	parseSpan := func(t string) (span, bool) {
		// "[lo,hi)"
		if !strings.HasPrefix(t, "[") || !strings.HasSuffix(t, ")") {
			return span{}, false
		}
		f := strings.Split(t[1:len(t)-1], ",")
		if len(f) != 2 {
			return span{}, false
		}
		lo, e1 := strconv.Atoi(f[0])
		hi, e2 := strconv.Atoi(f[1])
		return span{lo, hi}, e1 == nil && e2 == nil
	}
	// merged: the byte positions a list of spans covers in order, as one span when contiguous
	merged := func(l []span) (span, bool) {
		var out span
		first := true
		for _, s := range l {
			if s.lo == s.hi {
				continue
			}
			if first {
				out, first = s, false
				continue
			}
			if s.lo != out.hi {
				return span{}, false
			}
			out.hi = s.hi
		}
		if first {
			return span{0, 0}, true
		}
		return out, true
	}
	var badGate, badLine, badRet, badKeep, badFast []string
	feasible := 0
	placements := map[string]bool{}
	for _, sq := range seqs {
		toks := strings.Split(sq, " ; ")
		if toks[0] == "enabled=F" {
			if sq != "enabled=F ; ret("+itoa(N)+",nil)" {
				badGate = append(badGate, sq)
			}
			continue
		}
		if toks[0] != "enabled=T" {
			badGate = append(badGate, sq)
			continue
		}
		hasInit, init := true, 0 // init: 0 unknown, 1 non-empty, -1 empty
		var added []span
		type msg struct {
			body       span
			ok         bool
			coversInit bool
		}
		var msgs []msg
		var nls []int
		pos := 0
		loggedBuf := false
		infeasible := false
		why := ""
		fail := func(w string) {
			if why == "" {
				why = w
			}
		}
		ret := ""
		for _, t := range toks[1:] {
			if infeasible {
				break
			}
			switch {
			case strings.HasPrefix(t, "search"):
				eq := strings.LastIndex(t, "=")
				sp, ok := parseSpan(t[len("search"):eq])
				if !ok || sp.lo != pos || sp.hi != N {
					fail("the piece searched for a newline is " + t[len("search"):eq] + ", expected the unread rest [" + itoa(pos) + "," + itoa(N) + ")")
					break
				}
				if t[eq+1:] == "none" {
					pos = N + 1 // nothing more may be searched
					nls = append(nls, -1)
				} else {
					k, _ := strconv.Atoi(t[eq+1:])
					nls = append(nls, k)
					pos = k + 1
				}
			case t == "buf-empty=T":
				if a, _ := merged(added); a.lo != a.hi || (hasInit && init == 1) {
					infeasible = true
				} else if hasInit {
					init = -1
				}
			case t == "buf-empty=F":
				if a, _ := merged(added); a.lo != a.hi {
					// evidently non-empty
				} else if hasInit && init != -1 {
					init = 1
				} else {
					infeasible = true
				}
			case strings.HasPrefix(t, "buf+="):
				sp, ok := parseSpan(t[len("buf+="):])
				if !ok {
					fail("something other than a part of the chunk is appended to the buffer: " + t)
					break
				}
				added = append(added, sp)
				loggedBuf = false
			case t == "log(buf)":
				b, ok := merged(added)
				msgs = append(msgs, msg{body: b, ok: ok, coversInit: true})
				loggedBuf = true
			case strings.HasPrefix(t, "log("):
				sp, ok := parseSpan(strings.TrimSuffix(t[len("log("):], ")"))
				if !ok {
					fail("a message that is neither the buffer nor a part of the chunk is logged: " + t)
					break
				}
				pending, _ := merged(added)
				cov := (!hasInit || init == -1) && pending.lo == pending.hi
				if sp.lo == sp.hi {
					sp = span{0, 0}
				}
				msgs = append(msgs, msg{body: sp, ok: true, coversInit: cov})
			case t == "buf-reset":
				if a, _ := merged(added); (a.lo != a.hi || (hasInit && init != -1)) && !loggedBuf {
					fail("the buffer is reset while it holds bytes that were not logged")
				}
				hasInit, added = false, nil
			case strings.HasPrefix(t, "buf=") || strings.HasPrefix(t, "buf?"):
				fail("the buffer is changed in a way the model does not know: " + t)
			case strings.HasPrefix(t, "log-at("):
				fail("a line is logged at a level other than the writer's: " + t)
			case strings.HasPrefix(t, "cond?") || strings.HasPrefix(t, "gate?"):
				fail("a condition the model does not know: " + t)
			case strings.HasPrefix(t, "ret("):
				ret = t
			}
		}
		if infeasible {
			continue
		}
		feasible++
		var pl []string
		for _, k := range nls {
			pl = append(pl, itoa(k))
		}
		placements[strings.Join(pl, ",")] = true
		for _, t := range toks {
			if strings.HasPrefix(t, "buf=") {
				badKeep = append(badKeep, sq)
			}
		}
		if ret != "ret("+itoa(N)+",nil)" {
			badRet = append(badRet, sq)
		}
		// reference: the lines of (pending ++ chunk) for this newline placement
		if why == "" {
			start, k := 0, 0
			sawNone := false
			for _, q := range nls {
				if q < 0 {
					sawNone = true
					break
				}
				if k >= len(msgs) {
					fail("the line ending at byte " + itoa(q) + " is not logged")
					break
				}
				m := msgs[k]
				want := span{start, q}
				if want.lo == want.hi {
					want = span{0, 0}
				}
				switch {
				case !m.ok || m.body != want:
					fail("line " + itoa(k+1) + " should be bytes [" + itoa(start) + "," + itoa(q) + ") of the chunk (after anything pending), but what is logged covers [" + itoa(m.body.lo) + "," + itoa(m.body.hi) + ")")
				case k == 0 && !m.coversInit:
					badFast = append(badFast, sq)
					fail("the first line is logged without the partial line that may be pending in the buffer")
				}
				start = q + 1
				k++
			}
			if why == "" && k != len(msgs) {
				fail(itoa(len(msgs)) + " messages are logged for " + itoa(k) + " completed line(s)")
			}
			if why == "" {
				if !sawNone && start < N {
					fail("the chunk is not consumed: bytes from " + itoa(start) + " on are never searched")
				}
				rest, ok := merged(added)
				want := span{0, 0}
				if sawNone && start < N {
					want = span{start, N}
				}
				if !ok || rest != want {
					fail("after the call the buffer should hold the unterminated rest [" + itoa(want.lo) + "," + itoa(want.hi) + ") of the chunk, it holds [" + itoa(rest.lo) + "," + itoa(rest.hi) + ")")
				}
				if k == 0 && !hasInit {
					fail("a pending partial line is dropped although no line was completed")
				}
			}
		}
		if why != "" {
			badLine = append(badLine, why+" ("+sq+")")
		}
	}
	lim := func(l []string) []string {
		if len(l) > 2 {
			return append(l[:2:2], "… "+itoa(len(l)-2)+" more")
		}
		return l
	}
	P := PN(p)
	c.Check(len(badLine) == 0 && len(placements) >= 1<<uint(N), R("R17.1"), FStr(wr), "line-protocol", wr.Pos(), "bounded concrete exploration: a %d-byte chunk, every placement of newlines in it (%d placements, %d feasible paths incl. pending / no pending partial line; %d longer paths cut): what Write logs is exactly the completed lines of (pending ++ chunk), in order, empty ones included, and what it leaves buffered is exactly the unterminated rest: %v", N, len(placements), feasible, cut, lim(badLine))
	c.Check(len(badRet) == 0, R("R17.1"), FStr(wr), "consumes-all", wr.Pos(), "every path returns (len(%s), nil): %v", P, lim(badRet))
	c.Check(len(badGate) == 0, R("R17.2"), FStr(wr), "level-gate", wr.Pos(), "Write first asks the logger's core whether the writer's level is enabled (afresh on every call) and, if not, returns (len(%s), nil) without buffering or logging: %v", P, lim(badGate))
	c.Check(len(badFast) == 0 && len(badLine) == 0, R("R17.4"), FStr(wr), "fast-path-only-when-empty", wr.Pos(), "same exploration: a line is logged straight from the chunk only where the buffer is known to be empty; otherwise it joins the buffer, the buffer is logged and then reset: %v", lim(badFast))
	c.Check(len(badKeep) == 0 && len(badLine) == 0, R("R17.5"), FStr(wr), "no-retained-caller-slice", wr.Pos(), "same exploration: the buffer only ever grows by copying (bytes.Buffer.Write / append(buf, piece...)); the caller's slice is never stored: %v", lim(badKeep))

	// ---------------- Sync / Close ----------------
	sseqs, strunc, _ := explore(sy, 0)
	var badSync []string
	for _, sq := range sseqs {
		switch sq {
		case "buf-empty=F ; log(buf) ; buf-reset ; ret(nil)", "buf-empty=T ; buf-reset ; ret(nil)", "buf-empty=T ; ret(nil)":
		default:
			badSync = append(badSync, sq)
		}
	}
	c.Check(!strunc && len(sseqs) >= 2 && len(badSync) == 0, R("R17.3"), FStr(sy), "flushes-partial-line-only-if-non-empty", sy.Pos(), "Sync logs the pending partial line exactly when the buffer is non-empty (no empty message for a trailing newline), resets the buffer and returns nil: %v", badSync)
	cseqs, ctrunc, _ := explore(cl, 0)
	okClose := !ctrunc && len(cseqs) > 0
	for _, sq := range cseqs {
		if sq != "sync ; ret(sync)" && sq != "sync ; ret(nil)" && !strings.HasPrefix(sq, "sync ; ret(") {
			okClose = false
		}
	}
	c.Check(okClose, R("R17.3"), FStr(cl), "close-is-sync", cl.Pos(), "Close flushes through Sync on every path: %v", cseqs)
}

func (c *Ctx) constByteSlice(v ssa.Value) ([]byte, bool) {
	v = Strip(v)
	switch x := v.(type) {
	case *ssa.Convert:
		if k, ok := x.X.(*ssa.Const); ok && k.Value != nil && k.Value.Kind() == constant.String {
			return []byte(constant.StringVal(k.Value)), true
		}
	case *ssa.Slice:
		al, ok := x.X.(*ssa.Alloc)
		if !ok || x.Low != nil || x.High != nil {
			return nil, false
		}
		arr, ok := al.Type().Underlying().(*types.Pointer).Elem().Underlying().(*types.Array)
		if !ok {
			return nil, false
		}
		out := make([]byte, arr.Len())
		for _, r := range *al.Referrers() {
			switch y := r.(type) {
			case *ssa.Slice:
				if y != x {
					return nil, false
				}
			case *ssa.IndexAddr:
				k, ok := ConstInt(y.Index)
				if !ok {
					return nil, false
				}
				for _, rr := range *y.Referrers() {
					st, ok := rr.(*ssa.Store)
					if !ok || st.Addr != ssa.Value(y) {
						return nil, false
					}
					bv, ok := ConstInt(st.Val)
					if !ok {
						return nil, false
					}
					out[k] = byte(bv)
				}
			default:
				return nil, false
			}
		}
		return out, true
	case *ssa.UnOp:
		g, ok := x.X.(*ssa.Global)
		if !ok || x.Op != token.MUL {
			return nil, false
		}
		var val ssa.Value
		n := 0
		bad := false
		c.EachRootFunc(func(fn *ssa.Function) {
			AllInstrs(fn, func(i ssa.Instruction) {
				switch y := i.(type) {
				case *ssa.Store:
					if y.Addr == ssa.Value(g) {
						n++
						val = y.Val
						if FNm(fn) != "init" {
							bad = true
						}
					}
				case *ssa.UnOp:
					// a load of the variable that is indexed for writing, or passed anywhere but as a read-only argument, is not tracked: require all loads to be call arguments of std functions or this same use
					if y.X == ssa.Value(g) && y.Op == token.MUL {
						for _, r := range *y.Referrers() {
							if ia, ok := r.(*ssa.IndexAddr); ok {
								for _, rr := range *ia.Referrers() {
									if st, ok := rr.(*ssa.Store); ok && st.Addr == ssa.Value(ia) {
										bad = true
									}
								}
							}
						}
					}
				}
			})
		})
		if n == 1 && !bad {
			return c.constByteSlice(val)
		}
	}
	return nil, false
}
