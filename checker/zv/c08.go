package zv

import (
	"go/token"
	"go/types"
	"sort"
	"strings"

	"golang.org/x/tools/go/ssa"
)

func init() {
	Props["C08"] = Prop{
		Title: "Output is independent of logging history and of pooled-object reuse",
		Fn:    checkC08,
		Explanation: "History can only leak through objects recycled by zap's pools, so the check decides reset completeness and ownership for every pool found in the tree: each field of a pooled struct that is ever written outside the pool's constructor is either stored a neutral value on every path of the put wrapper before Pool.Put or unconditionally reassigned by the get wrapper before the object is handed out; Pool.Get/Put are called only from the designated wrappers; no function uses an object, or lets a reference into its storage escape, after releasing it; a buffer held in a field is released at most once (the field is cleared, or its holder is handed to a wrapper that clears it, on every path after Free); pooled-buffer fields are only ever assigned nil or a buffer freshly taken from the pool (exclusive ownership); the buffer returned by EncodeEntry is freed exactly once after the sink write. " +
			"Also decided: release functions are derived from the code (a function that puts its own receiver/parameter back) rather than listed; nothing that points into an object released by a deferred call is returned (its buffer bytes, its slices); encoding never writes into an object the shared encoder holds by pointer; values built from a parent never share a slice tail with it (all packages). " +
			"NOT decided: sync.Pool and GC behaviour, state kept in user objects, capacity effects.",
		Assumptions: commonAssumptions,
	}
}

const (
	poolGet = "(*go.uber.org/zap/internal/pool.Pool[T]).Get"
	poolPut = "(*go.uber.org/zap/internal/pool.Pool[T]).Put"
)

type poolDef struct {
	name  string // pkg.global
	recv  string // Desc of the pool value at Get/Put sites
	elem  *types.Named
	newFn *ssa.Function
	gets  []ssa.CallInstruction
	puts  []ssa.CallInstruction
}

func discoverPools(c *Ctx) []*poolDef {
	var pools []*poolDef
	byRecv := map[string]*poolDef{}
	for _, pk := range c.Roots {
		sp := c.SSAPkg[pk.PkgPath]
		if sp == nil {
			continue
		}
		init := sp.Func("init")
		AllInstrs(init, func(i ssa.Instruction) {
			st, ok := i.(*ssa.Store)
			if !ok {
				return
			}
			g, ok := st.Addr.(*ssa.Global)
			if !ok {
				return
			}
			call, ok := st.Val.(*ssa.Call)
			if !ok || !IsCallTo(call, "go.uber.org/zap/internal/pool.New") {
				return
			}
			pd := &poolDef{name: pk.PkgPath + "." + GN(g), recv: GN(g)}
			if mk, ok := call.Call.Args[0].(*ssa.MakeClosure); ok {
				pd.newFn, _ = mk.Fn.(*ssa.Function)
			} else if f, ok := call.Call.Args[0].(*ssa.Function); ok {
				pd.newFn = f
			}
			// element type: *Pool[*T]
			if pt, ok := call.Type().(*types.Pointer); ok {
				if n, ok := types.Unalias(pt.Elem()).(*types.Named); ok && n.TypeArgs().Len() == 1 {
					pd.elem, _ = types.Unalias(deref(n.TypeArgs().At(0))).(*types.Named)
				}
			}
			pools = append(pools, pd)
			byRecv[pk.PkgPath+"|"+GN(g)] = pd
		})
	}
	// the buffer pool: buffer.Pool{p}, wrappers Pool.Get / Pool.put
	if nb := c.Func("go.uber.org/zap/buffer", "NewPool"); nb != nil {
		pd := &poolDef{name: "go.uber.org/zap/buffer.Pool.p", recv: "p.p", elem: c.Named("go.uber.org/zap/buffer", "Buffer")}
		for _, cl := range Calls(nb) {
			if IsCallTo(cl, "go.uber.org/zap/internal/pool.New") {
				if mk, ok := cl.Common().Args[0].(*ssa.MakeClosure); ok {
					pd.newFn, _ = mk.Fn.(*ssa.Function)
				} else if f, ok := cl.Common().Args[0].(*ssa.Function); ok {
					pd.newFn = f
				}
			}
		}
		pools = append(pools, pd)
		byRecv["go.uber.org/zap/buffer|p.p"] = pd
	}
	c.EachRootFunc(func(fn *ssa.Function) {
		if fn.Pkg == nil {
			return
		}
		for _, cl := range Calls(fn) {
			isGet, isPut := IsCallTo(cl, poolGet), IsCallTo(cl, poolPut)
			if !isGet && !isPut {
				continue
			}
			pd := byRecv[fn.Pkg.Pkg.Path()+"|"+Desc(Args(cl)[0])]
			if pd == nil && strings.HasSuffix(Desc(Args(cl)[0]), ".p") {
				// the buffer pool's inner pool reached through another holder (b.pool.p from the buffer itself)
				pd = byRecv[fn.Pkg.Pkg.Path()+"|p.p"]
			}
			if pd == nil {
				continue
			}
			if isGet {
				pd.gets = append(pd.gets, cl)
			} else {
				pd.puts = append(pd.puts, cl)
			}
		}
	})
	sort.Slice(pools, func(i, j int) bool { return pools[i].name < pools[j].name })
	return pools
}

// neutral: is v a neutral (history-free) value for a field?
func isNeutral(v ssa.Value, addr ssa.Value) bool {
	switch x := v.(type) {
	case *ssa.Const:
		if x.Value == nil {
			return true
		}
		s := x.Value.ExactString()
		return s == "0" || s == "false" || s == `""`
	case *ssa.Slice:
		// f = f[:0]
		if h, ok := ConstInt(x.High); ok && h == 0 && x.Low == nil {
			return Desc(x.X) == Desc(addr)
		}
	case *ssa.UnOp:
		// zero value loaded from a fresh zero alloc (T{})
		if a, ok := x.X.(*ssa.Alloc); ok && x.Op == token.MUL {
			stores := 0
			if a.Referrers() != nil {
				for _, r := range *a.Referrers() {
					switch r.(type) {
					case *ssa.Store, *ssa.FieldAddr:
						stores++
					}
				}
			}
			return stores == 0
		}
	}
	return false
}

// fieldsReset returns the fields of obj (named struct) that fn sets to a
// neutral value (or reassigns at all, when anyValue) on EVERY path from entry
// to the instruction `before` (or to every return when before == nil).
// One level of static callee (method on obj) is followed.
func fieldsReset(c *Ctx, fn *ssa.Function, obj ssa.Value, named *types.Named, before ssa.Instruction, anyValue bool, depth int) map[string]bool {
	out := map[string]bool{}
	target := IsReturn
	if before != nil {
		target = func(i ssa.Instruction) bool { return i == before }
	}
	every := func(at ssa.Instruction) bool {
		return !ExistsPath(fn, nil, target, func(i ssa.Instruction) bool { return i == at })
	}
	AllInstrs(fn, func(i ssa.Instruction) {
		switch x := i.(type) {
		case *ssa.Store:
			if Strip(x.Addr) == Strip(obj) {
				// *obj = T{}: every field at once
				if cst, isC := x.Val.(*ssa.Const); isC && cst.Value == nil && every(x) {
					if st, ok := named.Underlying().(*types.Struct); ok {
						for k := 0; k < st.NumFields(); k++ {
							out[FN(st.Field(k))] = true
						}
					}
				}
				return
			}
			fa, ok := x.Addr.(*ssa.FieldAddr)
			if !ok || Strip(fa.X) != Strip(obj) {
				return
			}
			if (anyValue || isNeutral(x.Val, fa)) && every(x) {
				out[fieldName(fa.X.Type(), fa.Field)] = true
			}
		case *ssa.Call:
			callee := StaticCallee(x)
			if callee == nil || depth > 1 || len(x.Call.Args) == 0 || Strip(x.Call.Args[0]) != Strip(obj) || len(callee.Params) == 0 {
				return
			}
			if rn := RecvNamed(callee); rn == nil || rn.Origin() != named.Origin() {
				return
			}
			if !every(x) {
				return
			}
			for f := range fieldsReset(c, callee, callee.Params[0], named, nil, anyValue, depth+1) {
				out[f] = true
			}
		}
	})
	return out
}

// withinWrappers: fn is one of the designated wrappers, or an unexported
// helper / closure every call site of which lies within one (a part split off a wrapper).
func withinWrappers(fn *ssa.Function, allowed []string, depth int) bool {
	if fn == nil || depth > 3 {
		return false
	}
	for _, a := range allowed {
		if a == FStr(fn) {
			return true
		}
	}
	if fn.Parent() != nil {
		return withinWrappers(fn.Parent(), allowed, depth+1)
	}
	if !Eligible(fn) || len(sitesOf(fn)) == 0 {
		return false
	}
	for _, s := range sitesOf(fn) {
		if !withinWrappers(s.Parent(), allowed, depth+1) {
			return false
		}
	}
	return true
}

// c8ReleaseFns: the functions that hand an object back to its pool - Pool.Put and Buffer.Free themselves, and every
// function that passes its own receiver or parameter to one of them (found in the program, not listed).
func c8ReleaseFns(c *Ctx) map[string]bool {
	out := map[string]bool{"(*go.uber.org/zap/buffer.Buffer).Free": true, poolPut: true}
	for _, pd := range discoverPools(c) {
		for _, cl := range pd.puts {
			if f := c8ReleaseWrapper(cl); f != nil {
				out[FStr(f)] = true
			}
		}
	}
	c8CloseReleaseFns(c, out)
	return out
}

// c8ReleaseWrapper: the Put releases the enclosing function's own receiver/parameter, i.e. the function is a release
// function and the object's life ends at its call sites.
func c8ReleaseWrapper(put ssa.CallInstruction) *ssa.Function {
	args := Args(put)
	fn := put.Parent()
	if len(args) != 2 || fn.Parent() != nil {
		return nil
	}
	if p, ok := Strip(args[1]).(*ssa.Parameter); ok && p.Parent() == fn {
		return fn
	}
	return nil
}

func checkC08(c *Ctx) {
	c.Rule("R8.1", "reset completeness: every mutable field of a pooled struct is neutralised before Put or reassigned after Get", 7)
	c.Rule("R8.2", "every Pool.Get/Put site is accounted for: Put of a function's own parameter makes it a release function, any other Put is a release point in place", 9)
	c.Rule("R8.3", "no use of an object, and no escaping reference into its storage, after it was released", 8)
	c.Rule("R8.11", "the reflection scratch buffer is emptied before every use, and whenever it is exchanged the reflection encoder is rebuilt over the new one (an encoder left bound to a buffer that went back to the pool writes into the next owner's entry)", 1)
	c.As(map[string]string{"R10.7": "R8.11"}, func() { c10ScratchReset(c, "R10.7") })
	c.Rule("R8.14", "no object keeps scratch storage that all calls on it share (x.buf[:0] used as the place to build one call's output): overlapping calls would build their output in one array", 1)
	c8NoSharedScratch(c, "R8.14")
	c.Rule("R8.13", "a pool's constructor builds each object from nothing shared (no slice, map or pointer copied out of a package-level prototype)", 6)
	c8PoolCtorsFresh(c, "R8.13")
	c.Rule("R8.12", "the observer hands out a copy of its entries, or its array after giving it up - never a view of the array it goes on appending into (entries observed later would rewrite the ones already taken)", 2)
	c8ObserverHandsOutOwnStorage(c, "R8.12")
	if ce := c.Method(CorePath, "consoleEncoder", "EncodeEntry"); ce != nil {
		c.Rule("R8.15", "the console encoder's context clone is recycled through the release function that resets it (reflection buffer and encoder included), after its bytes were copied: a clone put back as it is hands its reflection encoder to the next owner", 2)
		c.As(map[string]string{"R16.2": "R8.15", "R16.3": "R8.15"}, func() { c16Grammar(c, ce) })
	}
	c.Rule("R8.10", "no Core keeps the caller's field slice: what Write (or With) records is a copy (the caller may reuse its slice for the next call, which would rewrite what was already recorded)", 2)
	c8NoRetainedFields(c, "R8.10")
	c.Rule("R8.4", "a buffer is released at most once: field cleared (or holder recycled) after Free; EncodeEntry's buffer freed exactly once after the write", 3)
	c.Rule("R8.5", "pooled-buffer fields are only assigned nil or a buffer fresh from the pool (exclusive ownership)", 2)

	pools := discoverPools(c)
	if len(pools) < 7 {
		c.Bad("R8.1", "pools", "count", token.NoPos, "expected at least 7 pools, discovered %d", len(pools))
	}
	exemptFields := map[string]string{
		"go.uber.org/zap/internal/stacktrace.Stack.storage": "capacity only: pcs is re-sliced from it in Capture before any read; its old contents are overwritten by runtime.Callers up to the count that is then used",
		"go.uber.org/zap/buffer.Buffer.pool":                "reassigned by Pool.Get on every hand-out (checked as get-side assignment)",
	}
	releaseFns := map[string]bool{}
	for _, pd := range pools {
		// every hand-out and hand-back site is accounted for: a Put of the function's own receiver/parameter makes that
		// function a release function (its call sites are then release points for R8.3); any other Put releases an
		// object in the function that holds it, and is a release point itself
		if len(pd.gets) == 0 || len(pd.puts) == 0 {
			c.Bad("R8.2", pd.name, "sites", token.NoPos, "pool %s has %d Get and %d Put call sites (an object that is never handed back, or never handed out)", pd.name, len(pd.gets), len(pd.puts))
		}
		for k, cl := range pd.gets {
			c.OK("R8.2", pd.name, "Get#"+itoa(k+1), cl.Pos(), "Pool.Get on %s in %s: the fields written during use are reassigned here or neutralised before Put (R8.1)", pd.name, cl.Parent())
		}
		for k, cl := range pd.puts {
			if f := c8ReleaseWrapper(cl); f != nil {
				releaseFns[FStr(f)] = true
				c.OK("R8.2", pd.name, "Put#"+itoa(k+1), cl.Pos(), "Pool.Put on %s releases %s's own %s: %s is a release function, its %d call site(s) are release points (R8.3)", pd.name, f, Desc(Args(cl)[1]), FNm(f), len(sitesOf(f)))
			} else {
				c.OK("R8.2", pd.name, "Put#"+itoa(k+1), cl.Pos(), "Pool.Put on %s in %s releases %s where it is held: the call is a release point itself (R8.3)", pd.name, cl.Parent(), Desc(Args(cl)[1]))
			}
		}
		if pd.elem == nil {
			c.Und("R8.1", pd.name, "elem", token.NoPos, "cannot determine the pooled struct type")
			continue
		}
		st, isStruct := pd.elem.Underlying().(*types.Struct)
		if !isStruct {
			continue
		}
		// W: fields written anywhere outside the pool constructor
		all := map[string]bool{}
		for i := 0; i < st.NumFields(); i++ {
			all[FN(st.Field(i))] = true
		}
		W := map[string]bool{}
		for _, a := range c.FieldAccesses(pd.elem, all) {
			if a.Write && a.Fn != pd.newFn && !(a.Fn.Parent() != nil && a.Fn.Parent() == pd.newFn) {
				W[a.Field] = true
			}
		}
		reset := map[string]bool{}
		for _, cl := range pd.puts {
			obj := Args(cl)[1]
			got := fieldsReset(c, cl.Parent(), obj, pd.elem, cl, false, 0)
			if len(pd.puts) == 1 {
				reset = got
			} else {
				for f := range got {
					reset[f] = true
				}
			}
		}
		assigned := map[string]bool{}
		for _, cl := range pd.gets {
			call, ok := cl.(*ssa.Call)
			if !ok {
				continue
			}
			for f := range fieldsReset(c, cl.Parent(), call, pd.elem, nil, true, 0) {
				assigned[f] = true
			}
		}
		var wl []string
		for f := range W {
			wl = append(wl, f)
		}
		sort.Strings(wl)
		tn := pd.elem.Obj().Pkg().Path() + "." + TNm(pd.elem.Obj())
		for _, f := range wl {
			if why, ok := exemptFields[tn+"."+f]; ok && (reset[f] || assigned[f] || f == "storage") {
				c.Triv("R8.1", pd.name, "field/"+f, pd.elem.Obj().Pos(), "exempt: %s", why)
				continue
			}
			c.Check(reset[f] || assigned[f], "R8.1", pd.name, "field/"+f, pd.elem.Obj().Pos(), "%s.%s is written during use; it is neutralised before Put=%v / reassigned after Get=%v on every path (otherwise a recycled object carries it into a later call)", TNm(pd.elem.Obj()), f, reset[f], assigned[f])
		}
		if len(wl) == 0 {
			c.OK("R8.1", pd.name, "no-mutable-fields", pd.elem.Obj().Pos(), "no field of %s is written outside the pool constructor", tn)
		}
	}
	releaseFns["(*go.uber.org/zap/buffer.Buffer).Free"] = true
	releaseFns[poolPut] = true
	c8CloseReleaseFns(c, releaseFns)
	c8UseAfterRelease(c, "R8.3", releaseFns)
	c8SingleRelease(c)
	c8Ownership(c)
	c8CloneOwnership(c, "R8.5")
	c.Rule("R8.9", "the stack capture skips the same frames whether the pooled frame storage was large enough or had to grow (the caller reported does not depend on whether the pool was warm)", 2)
	{
		// the caller-depth rules of C15 that concern the capture itself, filed here as well
		tmp := NewCtx(c.Program, "C15")
		checkC15(tmp)
		n := 0
		for _, o := range tmp.Obs {
			if (o.Rule == "R15.5") || (o.Rule == "R15.1" && strings.Contains(o.Key, "runtime.Callers")) {
				o.Key = strings.Replace(o.Key, o.Rule+"|", "R8.9|", 1)
				o.Rule = "R8.9"
				c.Obs = append(c.Obs, o)
				n++
			}
		}
		if n == 0 {
			c.Bad("R8.9", "stacktrace.Capture", "depth", token.NoPos, "no capture-depth obligations found")
		}
	}
	c.Rule("R8.8", "zapio.Writer: what is logged for a line depends on the bytes of that line only (the reassembly buffer never keeps bytes of a line that was already handed to the logger)", 5)
	c17Rules(c, "R8.8")
	c.Rule("R8.7", "no value built from a parent shares a slice tail with it (what a derived handler or an emitted entry holds cannot be overwritten by deriving or logging again)", 1)
	c7AppendsAll(c, "R8.7")
	c.Rule("R8.6", "encoding an entry never modifies the logger's shared encoder (what an entry looks like cannot depend on the entries logged before it)", 3)
	c9EncoderPurity(c, "R8.6")
}

// relArgIdx: which argument of a release function is the object released (the receiver/first argument when absent).
var relArgIdx = map[string]int{poolPut: 1}

// releasedObj: the object a call to a release function releases.
func releasedObj(cl ssa.CallInstruction) ssa.Value {
	args := Args(cl)
	i := relArgIdx[relName(cl)]
	if i >= len(args) {
		return nil
	}
	return args[i]
}

// c8CloseReleaseFns: a function of the module that, on every path, hands one of its own parameters to a release
// function releases that parameter itself: its call sites are release points too.
func c8CloseReleaseFns(c *Ctx, m map[string]bool) {
	for round := 0; round < 3; round++ {
		c.EachRootFunc(func(f *ssa.Function) {
			if f.Parent() != nil || m[FStr(f)] || f.Synthetic != "" {
				return
			}
			for _, cl := range Calls(f) {
				if _, isGo := cl.(*ssa.Go); isGo || !m[relName(cl)] {
					continue
				}
				obj := releasedObj(cl)
				p, isP := Strip(obj).(*ssa.Parameter)
				if obj == nil || !isP || p.Parent() != f {
					continue
				}
				if !mustPass(f, func(i ssa.Instruction) bool { return i == ssa.Instruction(cl) }) {
					continue
				}
				for i, q := range f.Params {
					if q == p {
						m[FStr(f)] = true
						relArgIdx[FStr(f)] = i
					}
				}
			}
		})
	}
}

func relName(cl ssa.CallInstruction) string {
	if f := CalleeFunc(cl); f != nil {
		return CanonFullName(f)
	}
	return ""
}

// c8UseAfterRelease: in every function, after a (non-deferred) release call on
// o, no instruction uses o; and no reference-typed field value of o escapes
// (is returned or stored into another object) from a function that releases o.
func c8UseAfterRelease(c *Ctx, rule string, releaseFns map[string]bool) {
	transfer := map[string]string{
		"(*go.uber.org/zap/zapcore.jsonEncoder).EncodeEntry|buf": "explicit ownership transfer: `ret := final.buf; putJSONEncoder(final); return ret` — legal because putJSONEncoder clears but does not free buf (checked by R8.4/put-json-keeps-buf)",
	}
	n := 0
	c.EachRootFunc(func(fn *ssa.Function) {
		// a DEFERRED release runs before the caller sees the result: nothing that points into the object may be returned
		for _, g := range WithClosures(fn) {
			for _, cl := range Calls(g) {
				df, isDefer := cl.(*ssa.Defer)
				deferredCtx := isDefer || g != fn && closureIsDeferred(g)
				if !deferredCtx || !releaseFns[relName(cl)] {
					continue
				}
				if _, isCall := cl.(*ssa.Call); !isCall && !isDefer {
					continue
				}
				_ = df
				obj := releasedObj(cl)
				if obj == nil {
					continue
				}
				objS := Strip(obj)
				// resolve a captured variable to what the enclosing function stored in it
				if u, ok := objS.(*ssa.UnOp); ok {
					if fa, ok := u.X.(*ssa.FieldAddr); ok {
						_ = fa
					}
					if fv, ok := u.X.(*ssa.FreeVar); ok {
						if b := c18Binding(fv); b != nil {
							if al, ok := b.(*ssa.Alloc); ok {
								if sv := singleStoreLoose(al); sv != nil {
									objS = Strip(sv)
								}
							}
						}
					}
				}
				var esc []string
				AllInstrs(fn, func(i ssa.Instruction) {
					if x, ok := i.(*ssa.Call); ok {
						if f := CalleeFunc(x); f != nil && FNm(f) == "Bytes" && len(Args(x)) == 1 {
							recv := Strip(Args(x)[0])
							if u, ok := recv.(*ssa.UnOp); ok {
								if al, ok := u.X.(*ssa.Alloc); ok {
									if sv := singleStoreLoose(al); sv != nil {
										recv = Strip(sv)
									}
								}
							}
							same := recv == objS
							if !same {
								// obj is a field of the released object (context.buf.Free() with putJSONEncoder(context))
								if u2, ok := objS.(*ssa.UnOp); ok {
									if fa, ok := u2.X.(*ssa.FieldAddr); ok {
										if u3, ok := recv.(*ssa.UnOp); ok {
											if fb, ok := u3.X.(*ssa.FieldAddr); ok && fa.Field == fb.Field && Desc(fa.X) == Desc(fb.X) {
												same = true
											}
										}
									}
								}
							}
							if same {
								if e := escapes(x, objS, 0); e == "is returned" {
									esc = append(esc, "Bytes() "+e)
								} else {
									// results are spilled around the deferred calls: look at what the returns yield
									for _, r := range Returns(fn) {
										for _, rv := range RetVals(r) {
											v := Strip(rv)
											if sl, ok := v.(*ssa.Slice); ok {
												v = Strip(sl.X)
											}
											if v == ssa.Value(x) {
												esc = append(esc, "Bytes() is returned")
											}
										}
									}
								}
							}
						}
					}
				})
				// a reference-typed field of the released object (its slice, map or pointer) handed out as the result
				for _, r := range Returns(fn) {
					for _, rv := range RetVals(r) {
						v := Strip(rv)
						if sl, ok := v.(*ssa.Slice); ok {
							v = Strip(sl.X)
						}
						ld, ok := v.(*ssa.UnOp)
						if !ok || ld.Op != token.MUL || !isRefType(ld.Type()) {
							continue
						}
						if fa, ok := ld.X.(*ssa.FieldAddr); ok && Strip(fa.X) == objS {
							esc = append(esc, "field "+fieldName(fa.X.Type(), fa.Field)+" is returned")
						}
					}
				}
				// ... or handed to a function that keeps it
				AllInstrs(fn, func(i ssa.Instruction) {
					ld, ok := i.(*ssa.UnOp)
					if !ok || ld.Op != token.MUL || !isRefType(ld.Type()) {
						return
					}
					if fa, ok := ld.X.(*ssa.FieldAddr); ok && Strip(fa.X) == objS {
						if e := escapes(ld, objS, 0); strings.HasPrefix(e, "is kept by") {
							esc = append(esc, "field "+fieldName(fa.X.Type(), fa.Field)+" "+e)
						}
					}
				})
				if len(esc) > 0 {
					n++
					c.Bad(rule, FuncKey(fn), "deferred-release/"+strings.TrimPrefix(relName(cl), "go.uber.org/zap/")+"("+Desc(obj)+")", cl.Pos(), "the object is released by a deferred call, i.e. before the caller uses the result, yet a reference into its storage %v", esc)
				}
			}
		}
		for _, cl := range Calls(fn) {
			call, isCall := cl.(*ssa.Call)
			if !isCall || !releaseFns[relName(cl)] {
				continue
			}
			obj := releasedObj(cl)
			if obj == nil {
				continue
			}
			// (a Put of the function's own parameter - a release function - is examined like any other: nothing may
			// touch the object once the pool has it)
			n++
			name := FuncKey(fn)
			slot := "release/" + strings.TrimPrefix(relName(cl), "go.uber.org/zap/") + "(" + Desc(obj) + ")"
			objS := Strip(obj)
			// released here and once more by a deferred call of the same function: the pool then hands the object to
			// two owners
			twice := false
			for _, dl := range Calls(fn) {
				df, isDefer := dl.(*ssa.Defer)
				if !isDefer || !releaseFns[relName(dl)] {
					continue
				}
				dobj := releasedObj(df)
				if dobj != nil && Strip(dobj) == objS {
					twice = true
					c.Bad(rule, name, slot+"/double-release", call.Pos(), "%s is released here and again by the deferred %s registered at %s: the pool ends up holding it twice and hands it to two calls at once", Desc(obj), relName(dl), c.Pos(df.Pos()))
				}
			}
			if twice {
				continue
			}
			// use after release
			w := WitnessPath(fn, call, func(i ssa.Instruction) bool {
				if _, isDbg := i.(*ssa.DebugRef); isDbg {
					return false
				}
				for _, op := range i.Operands(nil) {
					if *op != nil && Strip(*op) == objS {
						return true
					}
				}
				return false
			}, func(i ssa.Instruction) bool {
				// a path that re-executes the definition of o (next loop iteration) binds a new object
				def, ok := objS.(ssa.Instruction)
				return ok && i == def
			})
			if w != nil {
				c.Bad(rule, name, slot+"/use-after", call.Pos(), "%s is used after it was released (at %s: %s); the pool may already have handed it to another call", Desc(obj), c.Pos(w.Pos()), w.String())
				continue
			}
			// escaping aliases of o's storage
			var esc []string
			AllInstrs(fn, func(i ssa.Instruction) {
				var v ssa.Value
				fld := ""
				switch x := i.(type) {
				case *ssa.UnOp:
					if fa, ok := x.X.(*ssa.FieldAddr); ok && x.Op == token.MUL && Strip(fa.X) == objS && isRefType(x.Type()) {
						v, fld = x, fieldName(fa.X.Type(), fa.Field)
					}
				case *ssa.Call:
					if f := CalleeFunc(x); f != nil && FNm(f) == "Bytes" && len(Args(x)) == 1 && Strip(Args(x)[0]) == objS {
						v, fld = x, "Bytes()"
					}
				}
				if v == nil {
					return
				}
				if e := escapes(v, objS, 0); e != "" {
					_, listed := transfer[FStr(fn)+"|"+fld]
					// the same hand-over wherever it is written: the buffer outlives putJSONEncoder because that function
					// clears the encoder's buf field without freeing the buffer (decided by R8.4/put-json-keeps-buf)
					handOver := strings.HasSuffix(relName(cl), "zapcore.putJSONEncoder") && fld == "buf" && e == "is returned"
					if !listed && !handOver {
						esc = append(esc, fld+" "+e)
					}
				}
			})
			c.Check(len(esc) == 0, rule, name, slot, call.Pos(), "no later use of %s and no reference into its storage outlives the release %v", Desc(obj), esc)
		}
	})
	if n < 10 {
		c.Bad(rule, "release sites", "count", token.NoPos, "only %d release sites found", n)
	}
}

func isRefType(t types.Type) bool {
	switch t.Underlying().(type) {
	case *types.Slice, *types.Pointer, *types.Map, *types.Chan:
		return true
	}
	return false
}

// escapes: does value v (an alias into a released object's storage) get
// returned or stored into an object other than owner?
func escapes(v ssa.Value, owner ssa.Value, depth int) string {
	if depth > 5 || v.Referrers() == nil {
		return ""
	}
	for _, r := range *v.Referrers() {
		switch x := r.(type) {
		case *ssa.Return:
			return "is returned"
		case *ssa.Store:
			if x.Val == v {
				root := Root(x.Addr)
				if Strip(root) == owner {
					continue
				}
				if a, ok := root.(*ssa.Alloc); ok && !a.Heap && a.Comment != "varargs" {
					continue
				}
				if a, ok := root.(*ssa.Alloc); ok && a.Comment == "varargs" {
					// element of a variadic argument list: follow the slice made of it
					if a.Referrers() != nil {
						for _, ar := range *a.Referrers() {
							if sl, ok := ar.(*ssa.Slice); ok {
								if e := escapes(sl, owner, depth+1); e != "" {
									return e
								}
							}
						}
					}
					continue
				}
				return "is stored into " + Desc(x.Addr)
			}
		case *ssa.Phi:
			if e := escapes(x, owner, depth+1); e != "" {
				return e
			}
		case *ssa.Slice:
			if e := escapes(x, owner, depth+1); e != "" {
				return e
			}
		case *ssa.MakeInterface:
			if e := escapes(x, owner, depth+1); e != "" {
				return e
			}
		case *ssa.ChangeType:
			if e := escapes(x, owner, depth+1); e != "" {
				return e
			}
		case *ssa.Call:
			if CallBuiltin(x) == "append" {
				// appended as an element (arg 1..) or as the base slice
				if e := escapes(x, owner, depth+1); e != "" {
					return e
				}
				continue
			}
			// handed to a function of the module that keeps what it is given (stores it, or captures it in a function
			// literal that outlives the call)
			for ai, a := range x.Call.Args {
				if a != v {
					continue
				}
				for _, q := range calleeParams(x, ai) {
					if retainsParam(q, 0) {
						return "is kept by " + FStr(q.Parent()) + " (parameter " + q.Name() + ")"
					}
				}
			}
		}
	}
	return ""
}

// c8SingleRelease: after `x.f.Free()` the field is cleared (or x handed to a
// function that clears it) on every path; ioCore.Write frees the encoded
// buffer exactly once, after the write; putJSONEncoder does not free buf.
func c8SingleRelease(c *Ctx) {
	// which functions clear which *Buffer fields of their first parameter
	clears := map[string]map[string]bool{}
	je := c.Named(CorePath, "jsonEncoder")
	put := c.Func(CorePath, "putJSONEncoder")
	if c.Anchor("R8.4", "zapcore.putJSONEncoder", put != nil && je != nil) {
		clears[FStr(put)] = fieldsReset(c, put, put.Params[0], je, nil, false, 0)
		// does not free buf
		freesBuf := false
		for _, cl := range Calls(put) {
			if IsCallTo(cl, "(*go.uber.org/zap/buffer.Buffer).Free") && strings.HasSuffix(Desc(Args(cl)[0]), ".buf") {
				freesBuf = true
			}
		}
		c.Check(!freesBuf && clears[FStr(put)]["buf"], "R8.4", FStr(put), "put-json-keeps-buf", put.Pos(), "putJSONEncoder clears buf without freeing it (its owner is the caller: EncodeEntry returns it, Clone keeps it, writeContext frees it first)")
	}
	n := 0
	c.EachRootFunc(func(fn *ssa.Function) {
		for _, cl := range Calls(fn) {
			call, isCall := cl.(*ssa.Call)
			if !isCall || !IsCallTo(cl, "(*go.uber.org/zap/buffer.Buffer).Free") {
				continue
			}
			recv := Args(cl)[0]
			u, isLoad := recv.(*ssa.UnOp)
			if !isLoad {
				continue
			}
			fa, isField := u.X.(*ssa.FieldAddr)
			if !isField {
				continue
			}
			n++
			holder := fa.X
			fname := fieldName(fa.X.Type(), fa.Field)
			// on every path after Free: store nil to holder.f, or call of a clearing function with holder
			cleared := func(i ssa.Instruction) bool {
				switch x := i.(type) {
				case *ssa.Store:
					if f2, ok := x.Addr.(*ssa.FieldAddr); ok && Desc(f2.X) == Desc(holder) && f2.Field == fa.Field {
						return IsNilConst(Strip(x.Val)) || isFreshBuffer(x.Val)
					}
					if Desc(x.Addr) == Desc(holder) {
						if cst, isC := x.Val.(*ssa.Const); isC && cst.Value == nil {
							return true // *holder = T{}
						}
					}
				case *ssa.Call:
					if callee := StaticCallee(x); callee != nil && clears[FStr(callee)][fname] && len(x.Call.Args) > 0 && Desc(x.Call.Args[0]) == Desc(holder) {
						return true
					}
				}
				return false
			}
			leak := ExistsPath(fn, call, IsReturn, cleared)
			c.Check(!leak, "R8.4", FuncKey(fn), "field-cleared-after-free/"+Desc(recv), call.Pos(), "after %s.Free() the field is cleared (or its holder recycled through a clearing wrapper) on every path; otherwise the later release frees the same buffer twice and the pool hands it to two users", Desc(recv))
		}
	})
	if n < 2 {
		c.Bad("R8.4", "field frees", "count", token.NoPos, "expected at least 2 frees of buffer-valued fields, found %d", n)
	}
	// ioCore.Write
	w := c.Method(CorePath, "ioCore", "Write")
	if c.Anchor("R8.4", "zapcore.ioCore.Write", w != nil) {
		ok, _ := ioCoreWriteShape(c, w)
		c.Check(ok, "R8.4", FStr(w), "encoded-buffer-freed-once-after-write", w.Pos(), "the buffer returned by EncodeEntry is written to c.out whole (buf.Bytes()) and freed exactly once, after the write, on every path that received it")
	}
}

func isFreshBuffer(v ssa.Value) bool { return freshBuffer(v, 0) }

func freshBuffer(v ssa.Value, depth int) bool {
	call, ok := Strip(v).(*ssa.Call)
	if !ok {
		return false
	}
	if IsCallTo(call, "(go.uber.org/zap/buffer.Pool).Get") {
		return true
	}
	// a function that only hands on what the pool handed out
	if sc := call.Call.StaticCallee(); sc != nil && len(sc.Blocks) > 0 && depth < 3 && TypeName(call.Type()) == "*buffer.Buffer" {
		rets := Returns(sc)
		all := len(rets) > 0
		for _, r := range rets {
			rv := RetVals(r)
			if len(rv) != 1 || !freshBuffer(rv[0], depth+1) {
				all = false
			}
		}
		if all {
			return true
		}
	}
	d := Desc(call.Call.Value)
	return d == "Get" && TypeName(call.Type()) == "*buffer.Buffer"
}

// c8Ownership: every store into a *buffer.Buffer field of a pooled / encoder
// struct is nil or a fresh buffer.
func c8Ownership(c *Ctx) {
	for _, tn := range []struct{ pkg, name string }{{CorePath, "jsonEncoder"}} {
		named := c.Named(tn.pkg, tn.name)
		if !c.Anchor("R8.5", tn.pkg+"."+tn.name, named != nil) {
			continue
		}
		st := named.Underlying().(*types.Struct)
		bufFields := map[string]bool{}
		for i := 0; i < st.NumFields(); i++ {
			if TypeName(st.Field(i).Type()) == "*buffer.Buffer" {
				bufFields[FN(st.Field(i))] = true
			}
		}
		for _, a := range c.FieldAccesses(named, bufFields) {
			if !a.Write || a.Esc {
				continue
			}
			stI, ok := a.Instr.(*ssa.Store)
			if !ok {
				continue
			}
			okV := IsNilConst(Strip(stI.Val)) || isFreshBuffer(stI.Val)
			c.Check(okV, "R8.5", FuncKey(a.Fn), "buffer-field/"+a.Field+"@"+relLine(c, a), stI.Pos(), "%s.%s is assigned %s: must be nil or a buffer fresh from the pool — copying another encoder's buffer pointer gives two owners that both free it", tn.name, a.Field, Desc(stI.Val))
		}
	}
}

// closureIsDeferred: the function literal g is only ever used as the operand of a defer statement.
func closureIsDeferred(g *ssa.Function) bool {
	par := g.Parent()
	if par == nil {
		return false
	}
	ok := false
	AllInstrs(par, func(i ssa.Instruction) {
		if df, isD := i.(*ssa.Defer); isD {
			if mk, isMk := df.Call.Value.(*ssa.MakeClosure); isMk && mk.Fn == ssa.Value(g) {
				ok = true
			}
		}
	})
	return ok
}

// c8CloneOwnership: by path exploration of jsonEncoder.clone / Clone: the encoder handed out shares no buffer and no
// reflection encoder with the one it was cloned from - each *buffer.Buffer field (and reflectEnc, which writes into
// one) of the result is fresh, nil, or whatever the pooled object held, never the receiver's (a whole-struct copy
// counts for every field that is not reassigned afterwards). Two owners of one pooled buffer both free it.
func c8CloneOwnership(c *Ctx, rule string) {
	jn := c.Named(CorePath, "jsonEncoder")
	if !c.Anchor(rule, "zapcore.jsonEncoder", jn != nil) {
		return
	}
	stt, _ := jn.Underlying().(*types.Struct)
	var owned []string
	for i := 0; stt != nil && i < stt.NumFields(); i++ {
		tn := TypeName(stt.Field(i).Type())
		if tn == "*buffer.Buffer" || strings.HasSuffix(tn, "ReflectedEncoder") {
			owned = append(owned, FN(stt.Field(i)))
		}
	}
	n := 0
	for _, m := range []string{"clone", "Clone"} {
		fn := c.Method(CorePath, "jsonEncoder", m)
		if fn == nil {
			continue
		}
		rn := PN(fn.Params[0])
		var bad []string
		seqs, trunc := ConcPaths(fn, ConcCfg{
			MaxDepth:  8,
			Inline:    func(h *ssa.Function) bool { return h.Pkg != nil && h.Pkg.Pkg.Path() == CorePath },
			InlineAny: func(h *ssa.Function) bool { r := RecvNamed(h); return r != nil && r.Obj() == jn.Obj() },
			Event: func(in ssa.Instruction, st *ConcState) string {
				r, ok := in.(*ssa.Return)
				if !ok || len(r.Results) != 1 {
					return ""
				}
				fields := st.FieldsOf(r.Results[0])
				whole := fields["*"]
				for _, f := range owned {
					d, has := fields[f]
					switch {
					case has && (d == rn+"."+f || strings.HasPrefix(d, rn+".")):
						bad = append(bad, f+" = "+d)
					case !has && (whole == "*"+rn || whole == rn):
						bad = append(bad, f+" copied with the whole struct from "+rn)
					}
				}
				return "ret"
			},
		})
		if trunc || len(seqs) == 0 {
			c.Und(rule, FStr(fn), "clone-owns-its-buffers", fn.Pos(), "path exploration incomplete")
			continue
		}
		n++
		c.Check(len(bad) == 0, rule, FStr(fn), "clone-owns-its-buffers", fn.Pos(), "the encoder handed out shares none of %v with the encoder it was cloned from: %v", owned, bad)
	}
	if n == 0 {
		c.Bad(rule, "zapcore.jsonEncoder", "clone-owns-its-buffers", jn.Obj().Pos(), "no clone function found")
	}
}

// c8NoRetainedFields: by path exploration of Write and With of every Core implementation (helpers inline): the fields
// parameter - itself or re-sliced - is never stored into memory (a struct field, a slice element, a captured
// variable). Passing it on to an inner core or encoder, ranging over it, copying out of it and appending its elements
// to another slice are all fine.
// cellOfTransientClosures: a is a variable captured by function literals that only read it and that are themselves
// only called - where they are made, or by the helper of the module they are handed to, which does nothing with its
// parameter but call it. What such a variable holds is gone when the enclosing call returns.
func cellOfTransientClosures(a *ssa.Alloc) bool {
	if a.Referrers() == nil {
		return false
	}
	onlyCalled := func(v ssa.Value) bool {
		if v.Referrers() == nil {
			return false
		}
		for _, r := range *v.Referrers() {
			switch x := r.(type) {
			case *ssa.DebugRef:
			case ssa.CallInstruction:
				if _, isGo := x.(*ssa.Go); isGo || x.Common().Value != v {
					return false
				}
				for _, arg := range x.Common().Args {
					if arg == v {
						return false
					}
				}
			default:
				return false
			}
		}
		return true
	}
	transient := func(mk *ssa.MakeClosure) bool {
		if mk.Referrers() == nil {
			return false
		}
		for _, r := range *mk.Referrers() {
			switch x := r.(type) {
			case *ssa.DebugRef:
			case ssa.CallInstruction:
				if _, isGo := x.(*ssa.Go); isGo {
					return false
				}
				if x.Common().Value == ssa.Value(mk) {
					continue
				}
				h := x.Common().StaticCallee()
				if h == nil || !curProgRoot(h) || len(h.Blocks) == 0 || x.Common().IsInvoke() {
					return false
				}
				for i, arg := range x.Common().Args {
					if arg == ssa.Value(mk) && (i >= len(h.Params) || !onlyCalled(h.Params[i])) {
						return false
					}
				}
			default:
				return false
			}
		}
		return true
	}
	for _, r := range *a.Referrers() {
		switch x := r.(type) {
		case *ssa.DebugRef:
		case *ssa.Store:
			if x.Addr != ssa.Value(a) {
				return false
			}
		case *ssa.UnOp:
			if x.Op != token.MUL {
				return false
			}
		case *ssa.MakeClosure:
			if !readOnlyCapture(x, a, 0) || !transient(x) {
				return false
			}
		default:
			return false
		}
	}
	return true
}

func c8NoRetainedFields(c *Ctx, rule string) {
	iface := c.coreIface()
	if !c.Anchor(rule, "zapcore.Core", iface != nil) {
		return
	}
	n := 0
	for _, t := range c.Implementers(iface) {
		for _, m := range []string{"Write", "With"} {
			fn := c.Method(t.Obj().Pkg().Path(), TNm(t.Obj()), m)
			if fn == nil || RecvNamed(fn) == nil || RecvNamed(fn).Obj() != t.Obj() || len(fn.Params) < 2 {
				continue
			}
			fields := fn.Params[len(fn.Params)-1]
			if _, isSl := types.Unalias(fields.Type()).Underlying().(*types.Slice); !isSl {
				continue
			}
			isFields := func(st *ConcState, v ssa.Value) bool {
				for k := 0; k < 16; k++ {
					if v == ssa.Value(fields) {
						return true
					}
					if sl, ok := v.(*ssa.Slice); ok {
						v = sl.X
						continue
					}
					nx := st.Step(v)
					if nx == nil {
						return false
					}
					v = nx
				}
				return false
			}
			var bad []string
			_, trunc := ConcPaths(fn, ConcCfg{
				MaxIter: 1,
				Event: func(in ssa.Instruction, st *ConcState) string {
					sto, ok := in.(*ssa.Store)
					if !ok || !isFields(st, sto.Val) {
						return ""
					}
					// a plain local variable is no memory anybody else sees
					if a, isA := sto.Addr.(*ssa.Alloc); isA && (!allocEscapes(a) || cellOfTransientClosures(a)) {
						return ""
					}
					bad = append(bad, st.Desc(sto.Addr)+" = "+st.Desc(sto.Val)+" at "+c.Pos(sto.Pos()))
					return ""
				},
			})
			n++
			c.Check(!trunc && len(bad) == 0, rule, FStr(fn), "fields-not-retained", fn.Pos(), "on no path is the caller's field slice (or a re-slice of it) stored into memory: %v", uniqSorted(bad))
		}
	}
	if n < 8 {
		c.Bad(rule, "zapcore.Core implementations", "count", token.NoPos, "expected Write and With of at least 4 Core implementations, examined %d methods", n)
	}
}

// c8ObserverHandsOutOwnStorage: the observer's log store. A method of ObservedLogs that returns a slice of entries
// returns either a fresh copy, or the store's own array after giving it up (the field is set to nil or to a fresh
// slice on that path) - never a view of an array the store goes on appending into: entries observed later would
// overwrite the ones already handed out.
func c8ObserverHandsOutOwnStorage(c *Ctx, rule string) {
	const obsPath = "go.uber.org/zap/zaptest/observer"
	ol := c.Named(obsPath, "ObservedLogs")
	if !c.Anchor(rule, "observer.ObservedLogs", ol != nil) {
		return
	}
	// the store: the type's slice field
	st, _ := ol.Underlying().(*types.Struct)
	store := ""
	for i := 0; st != nil && i < st.NumFields(); i++ {
		if _, isSl := types.Unalias(st.Field(i).Type()).Underlying().(*types.Slice); isSl {
			store = FN(st.Field(i))
		}
	}
	if !c.Anchor(rule, "observer.ObservedLogs: its slice field", store != "") {
		return
	}
	n := 0
	c.EachRootFunc(func(fn *ssa.Function) {
		rn := RecvNamed(fn)
		if rn == nil || rn.Obj() != ol.Obj() || fn.Parent() != nil || fn.Signature.Results().Len() != 1 || fn.Synthetic != "" {
			return
		}
		if _, isSl := types.Unalias(fn.Signature.Results().At(0).Type()).Underlying().(*types.Slice); !isSl {
			return
		}
		n++
		rc := PN(fn.Params[0])
		resolve := func(s *ConcState, v ssa.Value) ssa.Value {
			for k := 0; k < 16; k++ {
				if sl, ok := v.(*ssa.Slice); ok {
					v = sl.X
					continue
				}
				nx := s.Step(v)
				if nx == nil {
					break
				}
				v = nx
			}
			return v
		}
		isStoreLoad := func(s *ConcState, v ssa.Value) bool {
			ld, ok := v.(*ssa.UnOp)
			return ok && ld.Op == token.MUL && strings.TrimPrefix(s.Desc(ld.X), "&") == rc+"."+store
		}
		seqs, trunc := ConcPaths(fn, ConcCfg{
			InlineAny: func(h *ssa.Function) bool { r := RecvNamed(h); return r != nil && r.Obj() == ol.Obj() },
			Event: func(in ssa.Instruction, s *ConcState) string {
				switch x := in.(type) {
				case *ssa.Store:
					if fa, ok := x.Addr.(*ssa.FieldAddr); ok && fieldName(fa.X.Type(), fa.Field) == store && s.Desc(fa.X) == rc {
						if isNil, known := s.IsNil(x.Val); known && isNil {
							return "store=nil"
						}
						switch b := resolve(s, x.Val).(type) {
						case *ssa.MakeSlice:
							return "store=fresh"
						case *ssa.Call:
							if CallBuiltin(b) == "append" {
								return "store=append"
							}
						}
						return "store=kept(" + s.Desc(x.Val) + ")"
					}
				case *ssa.Return:
					if len(s.cfg.stackDepth()) != 0 || len(x.Results) != 1 {
						return ""
					}
					v := resolve(s, x.Results[0])
					switch b := v.(type) {
					case *ssa.MakeSlice:
						return "ret-fresh"
					case *ssa.Const:
						if b.Value == nil {
							return "ret-nil"
						}
					}
					if isStoreLoad(s, v) {
						return "ret-storage"
					}
					return "ret-other(" + s.Desc(x.Results[0]) + ")"
				}
				return ""
			},
		})
		var bad []string
		for _, sq := range seqs {
			switch sq {
			case "ret-fresh", "ret-nil", "store=nil ; ret-storage", "store=fresh ; ret-storage":
			default:
				bad = append(bad, sq)
			}
		}
		c.Check(!trunc && len(seqs) > 0 && len(bad) == 0, rule, FStr(fn), "hands-out-own-storage", fn.Pos(), "on every path the entries returned are a fresh copy, or the store's array after the store gave it up (set to nil or to a fresh slice): %v", bad)
	})
	if n < 2 {
		c.Bad(rule, "observer.ObservedLogs", "count", token.NoPos, "expected at least two methods that hand out entries (All, TakeAll), found %d", n)
	}
	// a filtered collection is a collection of its own, never the live one it was filtered from
	nf := 0
	c.EachRootFunc(func(fn *ssa.Function) {
		rn := RecvNamed(fn)
		if rn == nil || rn.Obj() != ol.Obj() || fn.Parent() != nil || fn.Signature.Results().Len() != 1 || fn.Synthetic != "" {
			return
		}
		if on, _ := types.Unalias(deref(fn.Signature.Results().At(0).Type())).(*types.Named); on == nil || on.Obj() != ol.Obj() {
			return
		}
		nf++
		var live func(v ssa.Value, d int) bool
		live = func(v ssa.Value, d int) bool {
			if d > 4 {
				return false
			}
			switch x := Strip(v).(type) {
			case *ssa.Parameter:
				return x == fn.Params[0]
			case *ssa.Phi:
				for _, e := range x.Edges {
					if live(e, d+1) {
						return true
					}
				}
			}
			return false
		}
		bad := false
		for _, r := range Returns(fn) {
			for _, rv := range RetVals(r) {
				bad = bad || live(rv, 0)
			}
		}
		c.Check(!bad, rule, FStr(fn), "filtered-is-a-copy", fn.Pos(), "what %s returns is never the receiver itself (entries logged later - matching or not - would show up in the filtered view, and draining it would drain the observer)", fn.Name())
	})
	if nf < 3 {
		c.Bad(rule, "observer.ObservedLogs", "filters", token.NoPos, "expected at least three filter methods, found %d", nf)
	}
}

// c8PoolCtorsFresh: what a pool's constructor hands out is built from nothing shared. The object is allocated by the
// constructor, and nothing read from a package-level variable goes into it when that value has (or is) a slice, map
// or pointer: every object made that way would share the storage with all its siblings.
func c8PoolCtorsFresh(c *Ctx, rule string) {
	n := 0
	for _, pd := range discoverPools(c) {
		f := pd.newFn
		if f == nil || len(f.Blocks) == 0 {
			continue
		}
		n++
		var shared []string
		hasRef := func(t types.Type) bool {
			found := false
			var walk func(t types.Type, d int)
			walk = func(t types.Type, d int) {
				if d > 4 || found {
					return
				}
				switch u := types.Unalias(t).Underlying().(type) {
				case *types.Slice, *types.Map, *types.Pointer, *types.Chan:
					found = true
				case *types.Struct:
					for i := 0; i < u.NumFields(); i++ {
						walk(u.Field(i).Type(), d+1)
					}
				case *types.Array:
					walk(u.Elem(), d+1)
				}
			}
			walk(t, 0)
			return found
		}
		fromGlobal := func(v ssa.Value) (string, bool) {
			for k := 0; k < 8; k++ {
				switch x := v.(type) {
				case *ssa.UnOp:
					if x.Op != token.MUL {
						return "", false
					}
					v = x.X
					continue
				case *ssa.FieldAddr:
					v = x.X
					continue
				case *ssa.IndexAddr:
					v = x.X
					continue
				case *ssa.Slice:
					v = x.X
					continue
				case *ssa.ChangeType:
					v = x.X
					continue
				case *ssa.Global:
					return GN(x), true
				}
				break
			}
			return "", false
		}
		for _, g := range WithClosures(f) {
			AllInstrs(g, func(i ssa.Instruction) {
				st, ok := i.(*ssa.Store)
				if !ok || !hasRef(st.Val.Type()) {
					return
				}
				if _, isLd := st.Val.(*ssa.UnOp); !isLd {
					if _, isSl := st.Val.(*ssa.Slice); !isSl {
						return
					}
				}
				if gn, is := fromGlobal(st.Val); is {
					shared = append(shared, Desc(st.Addr)+" = (from package variable "+gn+") "+Desc(st.Val))
				}
			})
		}
		for _, r := range Returns(f) {
			for _, rv := range RetVals(r) {
				if gn, is := fromGlobal(Strip(rv)); is {
					shared = append(shared, "returns (from package variable "+gn+") "+Desc(rv))
				}
				if g, isG := Strip(rv).(*ssa.Global); isG {
					shared = append(shared, "returns the address of package variable "+GN(g))
				}
			}
		}
		c.Check(len(shared) == 0, rule, pd.name, "constructor-shares-nothing", f.Pos(), "the pool's constructor fills the new object with nothing read from a package-level variable that is or holds a slice, map or pointer (objects made from a shared prototype share its storage): %v", shared)
	}
	if n < 6 {
		c.Bad(rule, "pools", "constructors", token.NoPos, "expected at least 6 pool constructors, examined %d", n)
	}
}

// c8NoSharedScratch: no function of the library takes a zero-length re-slice of a slice that an object it was handed
// holds (x.buf[:0]) other than to store it back into that very field (the object truncating itself: a buffer's Reset,
// a pooled entry's reset). Anything else is per-object scratch storage re-used by every call on that object: two calls
// that overlap - concurrently, or nested through a user callback - build their output in the same array.
func c8NoSharedScratch(c *Ctx, rule string) {
	n := 0
	var bad []string
	c.EachRootFunc(func(fn *ssa.Function) {
		if fn.Pkg == nil {
			return
		}
		top := fn
		for top.Parent() != nil {
			top = top.Parent()
		}
		AllInstrs(fn, func(in ssa.Instruction) {
			sl, ok := in.(*ssa.Slice)
			if !ok || sl.High == nil {
				return
			}
			if k, isC := ConstInt(sl.High); !isC || k != 0 {
				return
			}
			if _, isSl := types.Unalias(sl.X.Type()).Underlying().(*types.Slice); !isSl {
				return
			}
			ld, isLd := sl.X.(*ssa.UnOp)
			if !isLd || ld.Op != token.MUL {
				return
			}
			fa, isFA := ld.X.(*ssa.FieldAddr)
			if !isFA {
				return
			}
			// held by an object the function was handed (receiver, parameter, captured)
			root := Root(fa.X)
			switch root.(type) {
			case *ssa.Parameter, *ssa.FreeVar:
			default:
				return
			}
			n++
			// stored back into the same field only
			self := sl.Referrers() != nil && len(*sl.Referrers()) > 0
			for _, r := range *sl.Referrers() {
				if _, isDbg := r.(*ssa.DebugRef); isDbg {
					continue
				}
				st, isSt := r.(*ssa.Store)
				if !isSt {
					self = false
					continue
				}
				// the same field of the same object - or of a value of its type that is about to replace it
				// (*x = T{buf: x.buf[:0]})
				fa2, isFA2 := st.Addr.(*ssa.FieldAddr)
				if !isFA2 || fa2.Field != fa.Field || !types.Identical(deref(fa2.X.Type()), deref(fa.X.Type())) {
					self = false
				}
			}
			if !self {
				bad = append(bad, FuncKey(fn)+": "+Desc(sl)+" at "+c.Pos(sl.Pos()))
			}
		})
	})
	c.Check(len(bad) == 0, rule, "library", "no-shared-scratch", token.NoPos, "%d zero-length re-slices of a slice held by a handed-in object examined: each is that object truncating itself (stored back into the same field), none is scratch storage shared by the calls on the object: %v", n, bad)
}
