package zv

import (
	"go/token"
	"go/types"
	"sort"
	"strings"

	"golang.org/x/tools/go/ssa"
)

func init() {
	Props["C09"] = Prop{
		Title: "The documented concurrent API is free of data races, deadlocks and panics",
		Fn:    checkC09,
		Explanation: "A static race/deadlock discipline check specialised to zap's synchronisation idioms: (1) guarded-by: every access to the state behind each zap mutex (BufferedWriteSyncer.mu, ObservedLogs.mu, sinkRegistry.mu, _globalMu, _encoderMutex; lockedWriteSyncer in C13) holds that mutex in the required mode on every path; (2) once-publication: every field stored inside a sync.Once closure is read only after the Do wrapper on every path, in every method of the type's method set including promoted ones; (3) immutability after construction: every store to a field of the shared, lock-free types (Logger, cores, handler, adapter) goes to an object allocated in the same function or to the argument of an option closure whose appliers all pass a fresh clone; (4) atomics: sampler counters are sync/atomic values never copied; (5) no channel operation or WaitGroup wait while a zap mutex is held, no call that re-acquires a mutex already held, no nested acquisition (lock-order graph empty); (6) encoders' EncodeEntry/Clone do not store through the receiver. " +
			"Also decided: package-level maps and slices are written only while the package initialises or with a lock held, also through helpers that write into a table parameter. " +
			"NOT decided: races inside user sinks/hooks/marshalers, the Go runtime and sync.Pool, panics other than the specific sources covered by C01/C03/C10/C11, actual schedules.",
		Assumptions: commonAssumptions,
	}
}

func checkC09(c *Ctx) {
	c.Rule("R9.1", "guarded-by: state behind each zap mutex is only accessed with it held", 36)
	c.Rule("R9.2", "once-publication: fields stored in a sync.Once closure are read only after the Do wrapper, in the whole method set", 2)
	c.Rule("R9.3", "immutability: stores to fields of shared lock-free types only on fresh objects / option-closure arguments; appliers pass fresh clones", 30)
	c.Rule("R9.4", "sampler counters are atomics handled by pointer", 2)
	c.Rule("R9.5", "no blocking operation, re-acquisition or nested acquisition while a zap mutex is held", 10)
	c.Rule("R9.6", "EncodeEntry/Clone never store through the receiver", 3)

	// ---------------- R9.1 ----------------
	c.Rule("R9.7", "BufferedWriteSyncer.Stop: atomic test-and-set, single close, wait with the mutex released (no double-close panic, no deadlock)", 1)
	c.Rule("R9.15", "the observer hands out a copy of its entries, or its array after giving it up: a reader of a batch never shares memory with the cores that go on logging", 2)
	c12Rules(c, "R9.1", "", "", "R9.7", "")
	if ol := c.Named("go.uber.org/zap/zaptest/observer", "ObservedLogs"); c.Anchor("R9.1", "observer.ObservedLogs", ol != nil) {
		guardedBy(c, "R9.1", ol, map[string]bool{"logs": true}, "mu", nil, func(Access) string { return "" })
	}
	c8ObserverHandsOutOwnStorage(c, "R9.15")
	if sr := c.Named(ZapPath, "sinkRegistry"); c.Anchor("R9.1", "zap.sinkRegistry", sr != nil) {
		guardedBy(c, "R9.1", sr, map[string]bool{"factories": true}, "mu", nil, func(Access) string { return "" })
	}
	for _, g := range []struct {
		pkg, mu string
		vars    []string
	}{
		{ZapPath, "_globalMu", []string{"_globalL", "_globalS"}},
		{ZapPath, "_encoderMutex", []string{"_encoderNameToConstructor"}},
	} {
		held := map[*ssa.Function]map[ssa.Instruction]LockSet{}
		if g.mu == "_globalMu" && len(c.GlobalAccesses(g.pkg, g.vars[0])) == 0 {
			// the global loggers kept in one struct with its own mutex: the struct's guarded-by discipline
			done := false
			if pk := c.Pkg(g.pkg); pk != nil {
				sc := pk.Types.Scope()
				for _, n := range sc.Names() {
					tn, ok := sc.Lookup(n).(*types.TypeName)
					if !ok || tn.IsAlias() {
						continue
					}
					named, _ := tn.Type().(*types.Named)
					st, _ := tn.Type().Underlying().(*types.Struct)
					if named == nil || st == nil {
						continue
					}
					mu := ""
					guarded := map[string]bool{}
					for i := 0; i < st.NumFields(); i++ {
						switch TypeName(st.Field(i).Type()) {
						case "sync.RWMutex", "sync.Mutex":
							mu = FN(st.Field(i))
						case "*zap.Logger", "*zap.SugaredLogger":
							guarded[FN(st.Field(i))] = true
						}
					}
					if mu != "" && len(guarded) == 2 && st.NumFields() == 3 {
						guardedBy(c, "R9.1", named, guarded, mu, nil, func(Access) string { return "" })
						done = true
					}
				}
			}
			if done {
				continue
			}
		}
		for _, v := range g.vars {
			accs := c.GlobalAccesses(g.pkg, v)
			if len(accs) == 0 {
				c.Und("R9.1", g.pkg+"."+v, "accesses", token.NoPos, "no access to %s found (renamed?)", v)
			}
			for k, a := range accs {
				slot := v + map[bool]string{true: "/write", false: "/read"}[a.Write] + "#" + itoa(k+1)
				if FNm(a.Fn) == "init" && a.Fn.Synthetic != "" {
					c.Triv("R9.1", FuncKey(a.Fn), slot, a.Instr.Pos(), "package initialiser (single-threaded)")
					continue
				}
				h, ok := held[a.Fn]
				if !ok {
					h = MustHeld(a.Fn, nil)
					if Eligible(a.Fn) {
						h = MustHeldCtx(a.Fn) // an unexported helper: what every one of its callers holds counts
					}
					held[a.Fn] = h
				}
				k2 := h[a.Instr][g.mu]
				c.Check(k2 == 1 || (k2 == 2 && !a.Write), "R9.1", FuncKey(a.Fn), slot, a.Instr.Pos(), "%s of %s with lockset %s (needs %s)", map[bool]string{true: "write", false: "read"}[a.Write], v, h[a.Instr], g.mu)
			}
		}
	}

	c9Once(c)
	c9Immutable(c)
	c9Atomics(c)
	c9Blocking(c)
	c9EncoderPurity(c, "R9.6")
	c.Rule("R9.10", "BufferedWriteSyncer: every call into the wrapped sink or its bufio writer runs with the mutex held (the sink is documented to need no lock of its own)", 2)
	for _, m := range []string{"Write", "Sync"} {
		if fb := c.Method(CorePath, "BufferedWriteSyncer", m); c.Anchor("R9.10", "zapcore.BufferedWriteSyncer."+m, fb != nil) {
			LockedAcross(c, "R9.10", fb, func(cl ssa.CallInstruction) bool {
				return IsCallTo(cl, "(*bufio.Writer).Write", "(*bufio.Writer).Flush", "(go.uber.org/zap/zapcore.WriteSyncer).Sync")
			}, ".mu")
		}
	}
	c.Rule("R9.11", "locked syncers hold their mutex exclusively across the inner Write and Sync (Lock exists to make a sink that is not safe for concurrent use safe - two Syncs inside it at once are a race); the cell an AtomicLevel points at is never replaced once it exists (a plain pointer store racing with every reader)", 3)
	lockedSyncerMethods(c, "R9.11")
	c5PointerStable(c, "R9.11")
	c.Rule("R9.12", "no derived core / handler / hook list shares a slice tail with what it was derived from (two derivations from one parent would write the same array element: a race, and each sibling's element overwritten)", 1)
	c7AppendsAll(c, "R9.12")
	c.Rule("R9.13", "the buffered syncer's bufio writer wraps the sink exactly as configured (a Lock-ed sink keeps its lock: flushes must not bypass it)", 1)
	if bws := c.Named(CorePath, "BufferedWriteSyncer"); bws != nil {
		if roles, ok := discoverBWS(c, bws); ok {
			c12BufferSize(c, "R9.13", roles)
		}
	}
	c.Rule("R9.14", "a cloned encoder shares no pooled buffer with its source (per-entry clones of one logger run concurrently: a shared reflection scratch buffer is a data race, and is returned to the pool while its first owner still holds it)", 1)
	c8CloneOwnership(c, "R9.14")
	c.Rule("R9.9", "package-level tables are read-only after initialisation (or written under a lock)", 1)
	c9GlobalTables(c, "R9.9")
	c.Rule("R9.8", "no object is touched after it went back to its pool (the next owner may be another goroutine), and derived handlers/cores never share a slice tail with their parent", 8)
	c8UseAfterRelease(c, "R9.8", c8ReleaseFns(c))
	for _, m := range []string{"WithAttrs", "WithGroup"} {
		if fn := c.Method(SlogPath, "Handler", m); fn != nil {
			c7Appends(c, "R9.8", fn)
		}
	}
	if rh := c.Func(CorePath, "RegisterHooks"); rh != nil {
		c7Appends(c, "R9.8", rh)
	}
}

// ---------------------------------------------------------------------------

func c9Once(c *Ctx) {
	// find all Do calls on a sync.Once that is a field of a zap struct
	type onceInfo struct {
		named   *types.Named
		wrapper *ssa.Function
		closure *ssa.Function
		doCall  ssa.CallInstruction
	}
	var infos []onceInfo
	c.EachRootFunc(func(fn *ssa.Function) {
		for _, cl := range Calls(fn) {
			if !IsCallTo(cl, "(*sync.Once).Do") {
				continue
			}
			recv := Args(cl)[0]
			fa, ok := recv.(*ssa.FieldAddr)
			if !ok {
				continue
			}
			n, _ := types.Unalias(deref(fa.X.Type())).(*types.Named)
			mk, _ := Args(cl)[1].(*ssa.MakeClosure)
			if n == nil || mk == nil {
				c.Und("R9.2", FuncKey(fn), "once", cl.Pos(), "sync.Once.Do with a non-literal function or on a non-struct receiver")
				continue
			}
			infos = append(infos, onceInfo{n, fn, onceBody(mk), cl})
		}
	})
	if mfn, _, _ := lazyMutexOnce(c); mfn != nil {
		// the one-time evaluation done under the object's own mutex and a once-flag (decided by lazyMutexOnce): the same
		// obligations, the method playing wrapper and closure at once and its Lock standing for the Do
		for _, cl := range Calls(mfn) {
			if IsCallTo(cl, "(*sync.Mutex).Lock") {
				infos = append(infos, onceInfo{RecvNamed(mfn), mfn, mfn, cl})
				break
			}
		}
	}
	if len(infos) == 0 {
		c.Bad("R9.2", "sync.Once", "instances", token.NoPos, "no sync.Once usage found")
		return
	}
	for _, oi := range infos {
		tn := oi.named.Obj().Pkg().Path() + "." + TNm(oi.named.Obj())
		// published fields = fields of the struct stored in the closure
		pub := map[string]bool{}
		for _, st := range FieldStoresOf(oi.closure, oi.named) {
			pub[st.Field] = true
		}
		var pubs []string
		for f := range pub {
			pubs = append(pubs, f)
		}
		sort.Strings(pubs)
		c.Check(len(pubs) > 0, "R9.2", tn, "published-fields", oi.doCall.Pos(), "fields published under the Once: %v (wrapper %s)", pubs, FNm(oi.wrapper))
		// reads of published fields anywhere (outside the closure): dominated by a call of the wrapper / the Do
		for _, a := range c.FieldAccesses(oi.named, pub) {
			if a.Fn == oi.closure {
				continue
			}
			fname := FuncKey(a.Fn)
			slot := a.Field + map[bool]string{true: "/write", false: "/read"}[a.Write] + "@" + relLine(c, a)
			if IsFresh(a.Base) {
				c.Triv("R9.2", fname, slot, a.Instr.Pos(), "constructor: object not yet shared")
				continue
			}
			if a.Write {
				c.Bad("R9.2", fname, slot, a.Instr.Pos(), "once-published field %s is written outside the Once closure", a.Field)
				continue
			}
			dom := false
			for _, cl := range Calls(a.Fn) {
				if StaticCallee(cl) == oi.wrapper && Dominates(cl, a.Instr) && Desc(Args(cl)[0]) == Desc(a.Base) {
					dom = true
				}
				if fa, isFA := Args(cl)[0].(*ssa.FieldAddr); cl == oi.doCall && isFA && Dominates(cl, a.Instr) && Desc(fa.X) == Desc(a.Base) {
					dom = true // after the Do itself, in the wrapper
				}
			}
			c.Check(dom, "R9.2", fname, slot, a.Instr.Pos(), "read of once-published %s.%s is preceded on every path by %s() (sync.Once gives the happens-before edge); an unsynchronised read races with the first-use initialisation", Desc(a.Base), a.Field, FNm(oi.wrapper))
		}
		// promoted methods through a published embedded field
		st := oi.named.Underlying().(*types.Struct)
		for i := 0; i < st.NumFields(); i++ {
			f := st.Field(i)
			if !f.Embedded() || !pub[FN(f)] {
				continue
			}
			ms := c.SSA.MethodSets.MethodSet(types.NewPointer(oi.named))
			for k := 0; k < ms.Len(); k++ {
				sel := ms.At(k)
				if len(sel.Index()) > 1 && sel.Index()[0] == i {
					c.Bad("R9.2", tn, "promoted/"+sel.Obj().Name(), f.Pos(), "method %s is promoted through the embedded field %s, which is overwritten inside the Once: the promoted wrapper reads it with no synchronisation", sel.Obj().Name(), FN(f))
				}
			}
		}
		// the wrapper calls Do unconditionally
		c.Check(mustPass(oi.wrapper, func(i ssa.Instruction) bool { return i == ssa.Instruction(oi.doCall) }), "R9.2", FuncKey(oi.wrapper), "wrapper-always-does", oi.doCall.Pos(), "%s reaches Once.Do on every path", FNm(oi.wrapper))
	}
}

// ---------------------------------------------------------------------------

var immutableTypes = []struct{ pkg, name string }{
	{ZapPath, "Logger"}, {ZapPath, "SugaredLogger"},
	{CorePath, "ioCore"}, {CorePath, "hooked"}, {CorePath, "levelFilterCore"}, {CorePath, "sampler"}, {CorePath, "lazyWithCore"},
	{"go.uber.org/zap/zaptest/observer", "contextObserver"},
	{SlogPath, "Handler"}, {"go.uber.org/zap/zapgrpc", "Logger"}, {"go.uber.org/zap/zapgrpc", "printer"},
	{"go.uber.org/zap/zapio", "Writer"},
}

// returnsFresh: f is a function of the module and each of its returns yields an object f allocated (a composite
// literal, new) or one that a function of the same kind returned to it.
func returnsFresh(f *ssa.Function, depth int) bool {
	if f == nil || !curProgRoot(f) || len(f.Blocks) == 0 || depth > 3 || f.Signature.Results().Len() != 1 {
		return false
	}
	n := 0
	for _, r := range Returns(f) {
		rv := RetVals(r)
		if len(rv) != 1 {
			return false
		}
		switch x := Strip(rv[0]).(type) {
		case *ssa.Alloc:
			if !x.Heap {
				return false
			}
		case *ssa.Call:
			if !returnsFresh(x.Call.StaticCallee(), depth+1) {
				return false
			}
		default:
			return false
		}
		n++
	}
	return n > 0
}

func c9Immutable(c *Ctx) {
	// option appliers: every call of an `apply(*T)` method passes a fresh object / clone
	applyOK := map[string]bool{}
	c.EachRootFunc(func(fn *ssa.Function) {
		for _, cl := range Calls(fn) {
			f := CalleeFunc(cl)
			if f == nil || FNm(f) != "apply" {
				continue
			}
			args := Args(cl)
			if len(args) != 2 {
				continue
			}
			target := TypeName(args[1].Type())
			v := Strip(args[1])
			fresh := IsFresh(v)
			if call, ok := v.(*ssa.Call); ok {
				if cf := CalleeFunc(call); cf != nil && FNm(cf) == "clone" {
					fresh = true
				}
				// a constructor of the module: every one of its returns hands out the object it allocated itself
				if sc := call.Call.StaticCallee(); sc != nil && returnsFresh(sc, 0) {
					fresh = true
				}
			}
			// forwarding appliers: optionFunc.apply(log) { f(log) } – argument is its own parameter
			if _, isParam := v.(*ssa.Parameter); isParam && FNm(fn) == "apply" {
				continue
			}
			// an unexported helper that applies a list of options to the logger it is handed: fresh when every call
			// site hands it a fresh one
			if p, isParam := v.(*ssa.Parameter); isParam && !fresh && fn.Parent() == nil && !token.IsExported(fn.Name()) && len(sitesOf(fn)) > 0 {
				idx := -1
				for i, q := range fn.Params {
					if q == p {
						idx = i
					}
				}
				all := idx >= 0
				for _, site := range sitesOf(fn) {
					sa := Args(site)
					if idx < 0 || idx >= len(sa) {
						all = false
						continue
					}
					av := Strip(sa[idx])
					okA := IsFresh(av)
					if call, isCall := av.(*ssa.Call); isCall {
						if cf := CalleeFunc(call); cf != nil && FNm(cf) == "clone" {
							okA = true
						}
						if sc := call.Call.StaticCallee(); sc != nil && returnsFresh(sc, 0) {
							okA = true
						}
					}
					all = all && okA
				}
				fresh = all
			}
			c.Check(fresh, "R9.3", FuncKey(fn), "apply-on-fresh/"+target, cl.Pos(), "options are applied to a fresh object or clone (%s), never to a shared %s", Desc(args[1]), target)
			if fresh {
				applyOK[target] = true
			}
		}
	})
	for _, it := range immutableTypes {
		named := c.Named(it.pkg, it.name)
		if !c.Anchor("R9.3", it.pkg+"."+it.name, named != nil) {
			continue
		}
		all := map[string]bool{}
		st, _ := named.Underlying().(*types.Struct)
		if st == nil {
			continue
		}
		skip := map[string]bool{}
		if it.name == "lazyWithCore" {
			skip["core"], skip["Once"] = true, true // published under sync.Once: R9.2
			if mfn, flag, pub := lazyMutexOnce(c); mfn != nil {
				// ... or under the object's own mutex and once-flag (lazyMutexOnce; R9.2 treats it alike)
				skip[flag], skip[pub] = true, true
				for i := 0; i < st.NumFields(); i++ {
					if TStr(st.Field(i).Type()) == "sync.Mutex" {
						skip[FN(st.Field(i))] = true
					}
				}
			}
		}
		if it.name == "Writer" && it.pkg == "go.uber.org/zap/zapio" {
			skip["buff"] = true // zapio.Writer is documented as not safe for concurrent use; only Log/Level must stay untouched
		}
		for i := 0; i < st.NumFields(); i++ {
			if !skip[FN(st.Field(i))] {
				all[FN(st.Field(i))] = true
			}
		}
		n := 0
		for _, a := range c.FieldAccesses(named, all) {
			if !a.Write {
				continue
			}
			if a.Esc {
				// address of a field handed out: only mutexes/Once do that; none of these types has one besides lazyWithCore.Once (skipped)
				if _, isCall := a.Instr.(ssa.CallInstruction); isCall {
					continue
				}
			}
			n++
			fname := FuncKey(a.Fn)
			slot := it.name + "." + a.Field + "@" + relLine(c, a)
			root := Root(a.Base)
			switch r := root.(type) {
			case *ssa.Alloc:
				c.OK("R9.3", fname, slot, a.Instr.Pos(), "store to a %s allocated in this function (not yet shared)", it.name)
			case *ssa.Parameter:
				// option closure: anonymous function with exactly one parameter of type *T, and appliers verified fresh
				okOpt := a.Fn.Parent() != nil && len(a.Fn.Params) == 1 && a.Fn.Params[0] == r && applyOK[TypeName(r.Type())]
				// ... or the apply method of an option type (the same thing written as a named type): its callers are
				// exactly the appliers checked above
				if FNm(a.Fn) == "apply" && a.Fn.Signature.Recv() != nil && len(a.Fn.Params) == 2 && a.Fn.Params[1] == r && applyOK[TypeName(r.Type())] {
					okOpt = true
				}
				// value receiver copies (func (w T) With(v) T { w.f = v; return w })
				_, isPtr := r.Type().Underlying().(*types.Pointer)
				c.Check(okOpt || !isPtr, "R9.3", fname, slot, a.Instr.Pos(), "store through parameter %s: allowed only inside an option closure (whose appliers all pass a fresh clone) or on a by-value copy", r.Name())
			case *ssa.Call:
				cf := CalleeFunc(r)
				c.Check(cf != nil && (FNm(cf) == "clone" || strings.HasPrefix(FNm(cf), "New")), "R9.3", fname, slot, a.Instr.Pos(), "store to the result of %s (a fresh clone)", Desc(r))
			default:
				c.Bad("R9.3", fname, slot, a.Instr.Pos(), "store to field %s of a %s that is neither fresh nor an option-closure argument (base %s): mutates an object other goroutines may be reading", a.Field, it.name, Desc(a.Base))
			}
		}
		_ = n
	}
}

func c9Atomics(c *Ctx) {
	cnt := c.Named(CorePath, "counter")
	cs := c.Named(CorePath, "counters")
	if !c.Anchor("R9.4", "zapcore.counter/counters", cnt != nil && cs != nil) {
		return
	}
	st := cnt.Underlying().(*types.Struct)
	ok := true
	var ft []string
	for i := 0; i < st.NumFields(); i++ {
		t := TypeName(st.Field(i).Type())
		ft = append(ft, FN(st.Field(i))+" "+t)
		if !strings.HasPrefix(t, "atomic.") {
			// a plain integer is as good when nothing but the functions of sync/atomic ever touches it
			onlyAtomic := t == "int64" || t == "uint64" || t == "int32" || t == "uint32"
			n := 0
			fname := FN(st.Field(i))
			c.EachRootFunc(func(fn *ssa.Function) {
				AllInstrs(fn, func(in ssa.Instruction) {
					fa, isFA := in.(*ssa.FieldAddr)
					if !isFA || fieldName(fa.X.Type(), fa.Field) != fname {
						return
					}
					if nn, _ := types.Unalias(deref(fa.X.Type())).(*types.Named); nn == nil || nn.Obj() != cnt.Obj() {
						return
					}
					n++
					if fa.Referrers() == nil {
						return
					}
					for _, r := range *fa.Referrers() {
						cl, isCall := r.(ssa.CallInstruction)
						if _, isDbg := r.(*ssa.DebugRef); isDbg {
							continue
						}
						if !isCall || CalleeFunc(cl) == nil || CalleeFunc(cl).Pkg() == nil || CalleeFunc(cl).Pkg().Path() != "sync/atomic" {
							onlyAtomic = false
						}
					}
				})
			})
			if !onlyAtomic || n == 0 {
				ok = false
			}
		}
	}
	c.Check(ok, "R9.4", CorePath+".counter", "all-atomic", cnt.Obj().Pos(), "every field of the sampler counter is a sync/atomic type (%v)", ft)
	// never copied: no load of a whole counter / counters value
	var copies []string
	c.EachRootFunc(func(fn *ssa.Function) {
		AllInstrs(fn, func(i ssa.Instruction) {
			if u, isU := i.(*ssa.UnOp); isU && u.Op == token.MUL {
				t := types.Unalias(u.Type())
				if types.Identical(t, cnt) || types.Identical(t, cs) {
					copies = append(copies, FuncKey(fn))
				}
			}
		})
	})
	// the table is inline storage all the way down: a pointer, slice or map cell would have to be allocated and
	// published at run time, which the lock-free sampler has no synchronisation for
	var ptrCells []string
	var walk func(t types.Type, path string, d int)
	walk = func(t types.Type, path string, d int) {
		if d > 6 {
			return
		}
		switch u := types.Unalias(t).Underlying().(type) {
		case *types.Array:
			walk(u.Elem(), path+"[]", d+1)
		case *types.Struct:
			for i := 0; i < u.NumFields(); i++ {
				if strings.HasPrefix(TypeName(u.Field(i).Type()), "atomic.") {
					continue
				}
				walk(u.Field(i).Type(), path+"."+FN(u.Field(i)), d+1)
			}
		case *types.Pointer, *types.Slice, *types.Map, *types.Chan, *types.Interface:
			ptrCells = append(ptrCells, path+" "+TypeName(t))
		}
	}
	walk(cs, "counters", 0)
	c.Check(len(ptrCells) == 0, "R9.4", CorePath+".counters", "inline-storage", cs.Obj().Pos(), "the counter table holds its counters inline (no pointer, slice or map cell that goroutines would have to fill in lazily without synchronisation): %v", ptrCells)
	c.Check(len(copies) == 0, "R9.4", CorePath+".counters", "never-copied", cs.Obj().Pos(), "counters are only handled through pointers (value copies in %v would fork the budget and race)", copies)
	al := c.Named(ZapPath, "AtomicLevel")
	if al != nil {
		s2 := al.Underlying().(*types.Struct)
		c.Check(s2.NumFields() == 1 && TypeName(s2.Field(0).Type()) == "*atomic.Int32", "R9.4", ZapPath+".AtomicLevel", "atomic-pointer", al.Obj().Pos(), "AtomicLevel shares one *atomic.Int32 between copies")
	}
}

func c9Blocking(c *Ctx) {
	sums := c.LockSummaries()
	nLockSites := 0
	c.EachRootFunc(func(fn *ssa.Function) {
		hasLock := false
		for _, cl := range Calls(fn) {
			if k, _ := LockEvent(cl); k != 0 {
				hasLock = true
			}
		}
		if !hasLock {
			return
		}
		held := MustHeld(fn, nil)
		deferred := DeferredUnlocks(fn)
		name := FuncKey(fn)
		okFn := true
		AllInstrs(fn, func(i ssa.Instruction) {
			ls := held[i]
			if cl, ok := i.(*ssa.Call); ok {
				if k, m := LockEvent(cl); k > 0 {
					nLockSites++
					if len(ls) > 0 {
						okFn = false
						c.Bad("R9.5", name, "nested-acquire/"+m, i.Pos(), "acquires %s while holding %s: lock-order graph is no longer empty (and re-acquiring a sync mutex self-deadlocks)", m, ls)
					}
					return
				}
			}
			if len(ls) == 0 {
				return
			}
			switch x := i.(type) {
			case *ssa.UnOp:
				if x.Op == token.ARROW {
					okFn = false
					c.Bad("R9.5", name, "recv-while-locked", i.Pos(), "channel receive while holding %s", ls)
				}
			case *ssa.Send:
				okFn = false
				c.Bad("R9.5", name, "send-while-locked", i.Pos(), "channel send while holding %s", ls)
			case *ssa.Select:
				if x.Blocking {
					okFn = false
					c.Bad("R9.5", name, "select-while-locked", i.Pos(), "blocking select while holding %s", ls)
				}
			case *ssa.Call:
				if IsCallTo(x, "(*sync.WaitGroup).Wait") {
					okFn = false
					c.Bad("R9.5", name, "wait-while-locked", i.Pos(), "WaitGroup.Wait while holding %s", ls)
				}
				if callee := StaticCallee(x); callee != nil && sums[callee] != nil {
					for m := range sums[callee] {
						t := translatePath(m, callee, x.Call.Args)
						if t != "" && ls[t] != 0 {
							okFn = false
							c.Bad("R9.5", name, "reacquire/"+FNm(callee), i.Pos(), "calls %s, which acquires %s, while already holding it (lockset %s): a second RLock deadlocks as soon as a writer queues in between, a second Lock always", FNm(callee), t, ls)
						}
					}
				}
			}
		})
		// every exit releases (or defers)
		for k, r := range Returns(fn) {
			for m := range held[r] {
				if !deferred[m] {
					okFn = false
					c.Bad("R9.5", name, "leaked-lock#"+itoa(k+1), r.Pos(), "returns while still holding %s", m)
				}
			}
		}
		if okFn {
			c.OK("R9.5", name, "lock-discipline", fn.Pos(), "no channel operation, wait, nested or repeated acquisition while a mutex is held; every exit releases")
		}
	})
	if nLockSites < 10 {
		c.Bad("R9.5", "lock sites", "count", token.NoPos, "only %d lock acquisition sites found", nLockSites)
	}
}

// c9EncoderPurity: EncodeEntry and Clone of both encoders do not modify the
// shared encoder they are called on (directly, or through any method of the
// encoder they call on it).
func c9EncoderPurity(c *Ctx, rule string) {
	for _, m := range []struct{ t, m string }{{"jsonEncoder", "EncodeEntry"}, {"jsonEncoder", "Clone"}, {"consoleEncoder", "EncodeEntry"}, {"consoleEncoder", "Clone"}} {
		fn := c.Method(CorePath, m.t, m.m)
		if !c.Anchor(rule, "zapcore."+m.t+"."+m.m, fn != nil) {
			continue
		}
		bad := encoderTouches(fn, map[*ssa.Function]bool{}, 0)
		c.Check(len(bad) == 0, rule, FStr(fn), "receiver-untouched", fn.Pos(), "the shared encoder is only read; all mutation happens on a per-call clone: %v", bad)
	}
}

// encoderTouches lists the ways fn modifies the encoder it is called on.
func encoderTouches(fn *ssa.Function, seen map[*ssa.Function]bool, depth int) []string {
	if seen[fn] || depth > 5 || len(fn.Params) == 0 {
		return nil
	}
	seen[fn] = true
	recv := fn.Params[0]
	isRecv := func(v ssa.Value) bool {
		return mayBe(v, func(x ssa.Value) bool {
			dd := Desc(x)
			return dd == PN(recv) || dd == PN(recv)+".jsonEncoder"
		})
	}
	// reach: v is (a pointer, slice or map held in) a field of the shared receiver - a per-encoder scratch object is as
	// shared as the encoder itself
	var reach func(v ssa.Value, d int) bool
	reach = func(v ssa.Value, d int) bool {
		if d > 6 {
			return false
		}
		switch x := v.(type) {
		case *ssa.Parameter:
			return x == recv
		case *ssa.Field:
			return reach(x.X, d+1)
		case *ssa.FieldAddr:
			return reach(x.X, d+1)
		case *ssa.IndexAddr:
			return reach(x.X, d+1)
		case *ssa.Slice:
			return reach(x.X, d+1)
		case *ssa.UnOp:
			if x.Op == token.MUL {
				if al, ok := x.X.(*ssa.Alloc); ok {
					// the spilled value receiver
					if sv := singleStoreLoose(al); sv != nil {
						return reach(sv, d+1)
					}
					return false
				}
				return reach(x.X, d+1)
			}
		case *ssa.Alloc:
			// the spilled value receiver
			if sv := singleStoreLoose(x); sv != nil {
				return reach(sv, d+1)
			}
		case *ssa.MakeInterface:
			return reach(x.X, d+1)
		case *ssa.ChangeType:
			return reach(x.X, d+1)
		}
		return false
	}
	// throughHeld: the address lies in an object reached by following a pointer/slice the receiver holds (not in the
	// receiver's own by-value copy)
	throughHeld := func(addr ssa.Value) bool {
		v := addr
		for k := 0; k < 8; k++ {
			switch x := v.(type) {
			case *ssa.FieldAddr:
				v = x.X
				continue
			case *ssa.IndexAddr:
				v = x.X
				continue
			case *ssa.Slice:
				v = x.X
				continue
			case *ssa.UnOp:
				if x.Op == token.MUL {
					return reach(x.X, 0) || reach(x, 0)
				}
			case *ssa.Field:
				return reach(x, 0)
			}
			return false
		}
		return false
	}
	var bad []string
	for _, f := range WithClosures(fn) {
		AllInstrs(f, func(i ssa.Instruction) {
			switch x := i.(type) {
			case *ssa.Store:
				r := Root(x.Addr)
				if r == ssa.Value(recv) {
					bad = append(bad, FNm(fn)+": store to "+Desc(x.Addr))
				} else if throughHeld(x.Addr) {
					bad = append(bad, FNm(fn)+": store to "+Desc(x.Addr)+" (an object held by the shared encoder)")
				}
				if fv, ok := r.(*ssa.FreeVar); ok && fv.Name() == recv.Name() {
					bad = append(bad, FNm(fn)+": store to "+Desc(x.Addr)+" (closure)")
				}
			case ssa.CallInstruction:
				cf := CalleeFunc(x)
				if cf == nil {
					return
				}
				args := Args(x)
				if len(args) == 0 {
					return
				}
				if x.Common().IsInvoke() || x.Common().StaticCallee() == nil {
					// user code (sub-encoders, marshalers) given an object the shared encoder holds
					for ai, a := range args {
						if _, isPtr := types.Unalias(Strip(a).Type()).Underlying().(*types.Pointer); isPtr && reach(a, 0) && !(ai == 0 && x.Common().IsInvoke()) {
							if n, _ := types.Unalias(deref(Strip(a).Type())).(*types.Named); n != nil && n.Obj().Pkg() != nil && strings.HasPrefix(n.Obj().Pkg().Path(), "go.uber.org/zap") && TNm(n.Obj()) != "EncoderConfig" {
								bad = append(bad, FNm(fn)+": "+Desc(a)+" (held by the shared encoder) is handed to code that writes into it")
							}
						}
					}
				}
				d := Desc(args[0])
				if (d == PN(recv)+".buf" || d == PN(recv)+".jsonEncoder.buf" || d == PN(recv)+".reflectBuf" || d == PN(recv)+".jsonEncoder.reflectBuf") && cf.Pkg() != nil && cf.Pkg().Path() == "go.uber.org/zap/buffer" {
					switch FNm(cf) {
					case "Len", "Bytes", "Cap", "String":
					default:
						bad = append(bad, FNm(fn)+": "+FNm(cf)+" on "+d)
					}
				}
				// a method of the encoder called on the shared receiver: it must itself leave it untouched
				if isRecv(args[0]) {
					if callee := StaticCallee(x); callee != nil && curProgRoot(callee) && callee.Signature.Recv() != nil {
						bad = append(bad, encoderTouches(callee, seen, depth+1)...)
					}
				}
			}
		})
	}
	return bad
}

// mayBe: can v (through phis and multi-store locals) be a value satisfying pred?
func mayBe(v ssa.Value, pred func(ssa.Value) bool) bool {
	seen := map[ssa.Value]bool{}
	var rec func(ssa.Value, int) bool
	rec = func(x ssa.Value, d int) bool {
		if x == nil || seen[x] || d > 10 {
			return false
		}
		seen[x] = true
		if pred(x) {
			return true
		}
		switch y := x.(type) {
		case *ssa.Phi:
			for _, e := range y.Edges {
				if rec(e, d+1) {
					return true
				}
			}
		case *ssa.ChangeType:
			return rec(y.X, d+1)
		case *ssa.MakeInterface:
			return rec(y.X, d+1)
		case *ssa.TypeAssert:
			return rec(y.X, d+1)
		case *ssa.UnOp:
			if a, ok := y.X.(*ssa.Alloc); ok && y.Op == token.MUL && a.Referrers() != nil {
				for _, r := range *a.Referrers() {
					if st, ok := r.(*ssa.Store); ok && st.Addr == ssa.Value(a) && rec(st.Val, d+1) {
						return true
					}
				}
			}
		}
		return false
	}
	return rec(v, 0)
}

// onceBody: the function a literal or a method value handed to Once.Do runs: the literal itself, or - for a method
// value x.m - the method m (the $bound wrapper only forwards to it).
func onceBody(mk *ssa.MakeClosure) *ssa.Function {
	f := mk.Fn.(*ssa.Function)
	if f.Synthetic != "" && strings.HasSuffix(FNm(f), "$bound") {
		for _, cl := range Calls(f) {
			if sc := StaticCallee(cl); sc != nil && len(sc.Blocks) > 0 {
				return sc
			}
		}
	}
	return f
}

// c9GlobalTables: package-level maps and slices are filled while the package initialises and are read-only
// afterwards, or every later write holds a lock. A table handed to a helper that writes into its parameter counts
// (the helper's call sites decide where the table comes from).
func c9GlobalTables(c *Ctx, rule string) {
	isInit := func(fn *ssa.Function) bool {
		top := fn
		for top.Parent() != nil {
			top = top.Parent()
		}
		return top.Signature.Recv() == nil && (FNm(top) == "init" || strings.HasPrefix(FNm(top), "init#"))
	}
	// fromGlobal: the table value may be (the contents of) a package-level variable
	var fromGlobal func(v ssa.Value, d int) *ssa.Global
	fromGlobal = func(v ssa.Value, d int) *ssa.Global {
		if d > 4 {
			return nil
		}
		v = Strip(v)
		switch x := v.(type) {
		case *ssa.UnOp:
			if x.Op == token.MUL {
				if g, ok := x.X.(*ssa.Global); ok {
					return g
				}
			}
		case *ssa.Global:
			return x
		case *ssa.Slice:
			return fromGlobal(x.X, d+1)
		case *ssa.Phi:
			for _, e := range x.Edges {
				if g := fromGlobal(e, d+1); g != nil {
					return g
				}
			}
		case *ssa.Parameter:
			f := x.Parent()
			idx := -1
			for i, p := range f.Params {
				if p == x {
					idx = i
				}
			}
			for _, s := range sitesOf(f) {
				a := s.Common().Args
				if s.Common().StaticCallee() == f && idx >= 0 && idx < len(a) {
					if g := fromGlobal(a[idx], d+1); g != nil {
						return g
					}
				}
			}
		}
		return nil
	}
	n := 0
	tables := map[*ssa.Global]bool{}
	c.EachRootFunc(func(fn *ssa.Function) {
		var held map[ssa.Instruction]LockSet
		AllInstrs(fn, func(in ssa.Instruction) {
			var tbl ssa.Value
			switch x := in.(type) {
			case *ssa.MapUpdate:
				tbl = x.Map
			case *ssa.Store:
				if ia, ok := x.Addr.(*ssa.IndexAddr); ok {
					tbl = ia.X
				}
			case *ssa.Call:
				// a small generic helper that stores into the map it is handed: the write happens here
				if h := x.Call.StaticCallee(); smallGenericHelper(h) {
					for ai, a := range x.Call.Args {
						if ai >= len(h.Params) {
							break
						}
						AllInstrs(h, func(hi ssa.Instruction) {
							if mu, isMu := hi.(*ssa.MapUpdate); isMu && mu.Map == ssa.Value(h.Params[ai]) {
								tbl = a
							}
						})
					}
				}
			}
			if tbl == nil {
				return
			}
			g := fromGlobal(tbl, 0)
			if g == nil || g.Pkg == nil {
				return
			}
			tables[g] = true
			if isInit(fn) {
				return
			}
			n++
			if held == nil {
				held = MustHeldCtx(fn)
			}
			locked := false
			for _, k := range held[in] {
				if k == 1 {
					locked = true
				}
			}
			c.Check(locked, rule, FuncKey(fn), "table-write/"+GN(g), in.Pos(), "the package-level table %s is written after initialisation only with a lock held (lockset %s); an unsynchronised write on the logging path races with every reader", GN(g), held[in])
		})
	})
	c.Check(len(tables) >= 3, rule, "package-level tables", "count", token.NoPos, "%d package-level maps/slices with element writes found; %d writes outside initialisers, each under a lock", len(tables), n)
}
