package zv

import (
	"go/token"
	"strconv"
	"strings"

	"golang.org/x/tools/go/ssa"
)

func init() {
	Props["C14"] = Prop{
		Title: "SugaredLogger never drops or misattributes loosely-typed arguments",
		Fn:    checkC14,
		Explanation: "Decides, by exploring every path of sweetenFields for up to three sweeps of its loop (index concrete, number of arguments symbolic and tracked as an interval from the path's own comparisons) and replaying each path's events - reads of args[k], type tests, appends, error entries, return - against the documented behaviour: arguments are consumed strictly in order and exactly once (one for a typed field, a bare error or a dangling last key, two for a pair), args[k] is read only where len(args) > k is established, a typed Field is appended as is, the first bare error as zap.Error and every later one reported, a string-keyed pair as zap.Any(key, value), any other pair recorded with its position and reported after the sweep, a dangling key reported only where it is established to be the last argument, and the accumulated fields are returned only when every argument is consumed - whatever loop shape, index bookkeeping or helper split the code uses; the routing table of the 32 sugared methods (level, template/args/context slots, log vs logln) and of With/WithLazy; and, by path exploration from SugaredLogger.log / logln to Logger.Check, the message: Sprintln(args...) minus exactly its last byte for the *ln methods; the template verbatim exactly when there are no arguments, Sprintf(template, args...) for a non-empty template, Sprint(args...) (or the lone string argument itself) for an empty one. " +
			"NOT decided: fmt's formatting, what zap.Any does with each value (C03).",
		Assumptions: commonAssumptions,
	}
}

// appendParts returns the base slice and the appended element values of an append call.
// varargElems: the values stored into the array behind a varargs slice.
func varargElems(v ssa.Value) (elems []ssa.Value) {
	sl, ok := v.(*ssa.Slice)
	if !ok {
		return nil
	}
	arr, ok := sl.X.(*ssa.Alloc)
	if !ok || arr.Referrers() == nil {
		return nil
	}
	for _, r := range *arr.Referrers() {
		if ia, ok := r.(*ssa.IndexAddr); ok && ia.Referrers() != nil {
			for _, rr := range *ia.Referrers() {
				if st, ok := rr.(*ssa.Store); ok && st.Addr == ssa.Value(ia) {
					elems = append(elems, st.Val)
				}
			}
		}
	}
	return elems
}

func appendParts(call *ssa.Call) (base ssa.Value, elems []ssa.Value) {
	if CallBuiltin(call) != "append" || len(call.Call.Args) != 2 {
		return nil, nil
	}
	base = call.Call.Args[0]
	sl, ok := call.Call.Args[1].(*ssa.Slice)
	if !ok {
		return base, nil
	}
	arr, ok := sl.X.(*ssa.Alloc)
	if !ok || arr.Referrers() == nil {
		return base, nil
	}
	for _, r := range *arr.Referrers() {
		if ia, ok := r.(*ssa.IndexAddr); ok && ia.Referrers() != nil {
			for _, rr := range *ia.Referrers() {
				if st, ok := rr.(*ssa.Store); ok && st.Addr == ssa.Value(ia) {
					elems = append(elems, st.Val)
				}
			}
		}
	}
	return base, elems
}

func checkC14(c *Ctx) {
	c.Rule("R14.1", "no silent drop: every argument is consumed exactly once, in order, within bounds, and accounted for (replay of all paths against the reference model)", 3)
	c.Rule("R14.2", "representation: typed Field as is, first bare error via zap.Error, pairs via zap.Any; later bare errors reported (replay against the reference model)", 2)
	c.Rule("R14.3", "routing table of the sugared methods: level, slots, helper", 21)
	c.Rule("R14.4", "message construction: Sprintln minus its last byte; template / Sprintf / Sprint", 3)
	c.Rule("R14.6", "the representation a string-keyed pair gets is zap.Any's documented choice: one arm per supported type calling the constructor of that type, structural interfaces (ObjectMarshaler, ArrayMarshaler) before error before Stringer, reflection only as the fallback", 60)
	c.As(map[string]string{"R3.3": "R14.6"}, func() { c3Any(c) })
	c.Rule("R14.5", "a bare error or an error value never vanishes: zap.Error/NamedError skip exactly the nil interface, nothing else", 2)
	c3NilErrorR(c, "R14.5")

	c14Sweep(c)
	c14Routing(c)
	c14Messages(c)
}

func c14Routing(c *Ctx) {
	for _, n := range append(append([]string{}, levelNames...), "Log") {
		for _, suf := range []string{"", "f", "w", "ln"} {
			fn := c.Method(ZapPath, "SugaredLogger", n+suf)
			if !c.Anchor("R14.3", "zap.SugaredLogger."+n+suf, fn != nil) {
				continue
			}
			// by path exploration (the sugared helpers and the function values handed to them inline; the two message
			// functions, sweetenFields and the Logger's own methods opaque): what reaches Logger.Check as level and message,
			// and what is sweetened into fields
			ps := fn.Params[1:]
			lvlWant := ""
			if n == "Log" {
				lvlWant = PN(ps[0])
				ps = ps[1:]
			}
			var wantMsg []string
			wantCtx := "nil"
			switch suf {
			case "":
				wantMsg = []string{`getMessage("", ` + PN(ps[0]) + `)`}
			case "f":
				wantMsg = []string{`getMessage(` + PN(ps[0]) + `, ` + PN(ps[1]) + `)`}
			case "w":
				wantMsg = []string{`getMessage(` + PN(ps[0]) + `, nil)`, PN(ps[0])}
				wantCtx = PN(ps[1])
			case "ln":
				wantMsg = []string{`getMessageln(` + PN(ps[0]) + `)`}
			}
			seqs, trunc := ConcPaths(fn, ConcCfg{
				Inline: func(h *ssa.Function) bool {
					return c14Inline(h) && FNm(h) != "getMessage" && FNm(h) != "getMessageln"
				},
				Event: func(in ssa.Instruction, st *ConcState) string {
					x, ok := in.(*ssa.Call)
					if !ok {
						return ""
					}
					switch {
					case IsCallTo(x, "(*go.uber.org/zap.Logger).Check"):
						a := Args(x)
						lv := st.Desc(a[1])
						if k, known := st.Int(a[1]); known {
							lv = itoa(int(k))
						}
						m := c14Resolve(st, a[2])
						md := st.Desc(a[2])
						fname := ""
						mc, isCall := m.(*ssa.Call)
						if isCall {
							if IsCallTo(mc, ZapPath+".getMessage") || IsCallTo(mc, ZapPath+".getMessageln") {
								fname = FNm(CalleeFunc(mc))
							} else if !mc.Call.IsInvoke() && mc.Call.StaticCallee() == nil {
								// the message function handed down as a value
								if f, isF := c14Resolve(st, mc.Call.Value).(*ssa.Function); isF && (FNm(f) == "getMessage" || FNm(f) == "getMessageln") && f.Pkg != nil && f.Pkg.Pkg.Path() == ZapPath {
									fname = FNm(f)
								}
							}
						}
						if fname != "" {
							var as []string
							for _, ma := range mc.Call.Args {
								d := st.Desc(ma)
								if isNil, known := st.IsNil(ma); known && isNil {
									d = "nil"
								}
								as = append(as, d)
							}
							md = fname + "(" + strings.Join(as, ", ") + ")"
						}
						return "check[" + lv + "|" + md + "]"
					case IsCallTo(x, "(*go.uber.org/zap.SugaredLogger).sweetenFields"):
						a := Args(x)
						d := st.Desc(a[1])
						if isNil, known := st.IsNil(a[1]); known && isNil {
							d = "nil"
						}
						return "ctx[" + d + "]"
					}
					return ""
				},
			})
			var bad []string
			nCheck := 0
			// (message functions explored inline: a path may yield a constant - the empty template with no arguments - so
			// the parameters are accounted for over all paths together)
			mentioned, needAll := map[string]bool{}, map[string]bool{}
			lvK, _ := c.ConstVal(CorePath, n+"Level")
			for _, sq := range seqs {
				for _, t := range strings.Split(sq, " ; ") {
					switch {
					case strings.HasPrefix(t, "check["):
						nCheck++
						parts := strings.SplitN(strings.TrimSuffix(strings.TrimPrefix(t, "check["), "]"), "|", 2)
						okL := n == "Log" && parts[0] == lvlWant || n != "Log" && parts[0] == itoa(int(lvK))
						okM := false
						for _, w := range wantMsg {
							okM = okM || len(parts) == 2 && parts[1] == w
						}
						if !okM && len(parts) == 2 && !strings.HasPrefix(parts[1], "getMessage(") && !strings.HasPrefix(parts[1], "getMessageln(") {
							// the message functions written out in place: built from exactly the parameters that make up
							// the message of this family (how is R14.4's business), and from no other
							need := map[string]bool{}
							switch suf {
							case "", "ln", "w":
								need[PN(ps[0])] = true
							case "f":
								need[PN(ps[0])], need[PN(ps[1])] = true, true
							}
							okM = true
							for _, q := range fn.Params[1:] {
								has := replaceWord(parts[1], PN(q), "\x00") != parts[1]
								if has && !need[PN(q)] {
									okM = false
								}
								if has {
									mentioned[PN(q)] = true
								}
							}
							for q := range need {
								needAll[q] = true
							}
						}
						if !okL || !okM {
							bad = append(bad, t)
						}
					case strings.HasPrefix(t, "ctx["):
						if t != "ctx["+wantCtx+"]" {
							bad = append(bad, t)
						}
					}
				}
			}
			for q := range needAll {
				if !mentioned[q] {
					bad = append(bad, "no path builds the message from "+q)
				}
			}
			c.Check(!trunc && nCheck > 0 && len(bad) == 0, "R14.3", FStr(fn), "slots", fn.Pos(), "on every path of %s (helpers inline): Logger.Check gets the method's level and the message %v, and exactly %s is sweetened into fields (offending: %v)", n+suf, wantMsg, wantCtx, uniqSorted(bad))
		}
	}
	for _, m := range []string{"With", "WithLazy"} {
		fn := c.Method(ZapPath, "SugaredLogger", m)
		if !c.Anchor("R14.3", "zap.SugaredLogger."+m, fn != nil) {
			continue
		}
		ok := false
		for _, st := range FieldStoresOf(fn, c.Named(ZapPath, "SugaredLogger")) {
			d := Desc(st.Instr.Val)
			ok = st.Field == "base" && d == m+"(s.base, sweetenFields(s, args))"
			if !ok {
				ok = st.Field == "base" && strings.HasPrefix(d, m+"(s.base, sweetenFields(s, args)")
			}
		}
		c.Check(ok, "R14.3", FStr(fn), "sweetens-then-delegates", fn.Pos(), "%s wraps base.%s(sweetenFields(args)...) in a new SugaredLogger", m, m)
	}
}

func c14Messages(c *Ctx) {
	c14MessageLn(c)
	c14MessageF(c)
}

// c14Inline: helpers of the sugared front end that are explored inline when following a message to Logger.Check.
func c14Inline(h *ssa.Function) bool {
	return h.Pkg != nil && h.Pkg.Pkg.Path() == ZapPath && !strings.HasPrefix(FStr(h), "(*go.uber.org/zap.Logger).") && FNm(h) != "sweetenFields"
}

func c14Resolve(st *ConcState, v ssa.Value) ssa.Value {
	v = stripConv(v)
	for k := 0; k < 16; k++ {
		nx := st.Step(v)
		if nx == nil {
			break
		}
		v = stripConv(nx)
	}
	return v
}

// c14MessageLn: by path exploration of SugaredLogger.logln (helpers inline): the message handed to Logger.Check is
// fmt.Sprintln(args...) without exactly its final byte.
func c14MessageLn(c *Ctx) {
	fn := c.Method(ZapPath, "SugaredLogger", "logln")
	argIdx := 2
	if fn == nil || len(fn.Params) != 4 {
		// no helper of its own for the …ln family: followed from one of its methods (the shared helper and the message
		// function it is handed explored inline)
		fn, argIdx = c.Method(ZapPath, "SugaredLogger", "Infoln"), 1
	}
	if !c.Anchor("R14.4", "zap.SugaredLogger.logln", fn != nil && len(fn.Params) > argIdx) {
		return
	}
	name := FStr(fn)
	argsP := fn.Params[argIdx]
	isSprintln := func(st *ConcState, v ssa.Value) (*ssa.Call, bool) {
		cl, ok := c14Resolve(st, v).(*ssa.Call)
		if !ok || !IsCallTo(cl, "fmt.Sprintln") || len(cl.Call.Args) != 1 {
			return nil, false
		}
		return cl, c14Resolve(st, cl.Call.Args[0]) == ssa.Value(argsP)
	}
	nCheck := 0
	seqs, trunc := ConcPaths(fn, ConcCfg{
		Inline: c14Inline,
		Event: func(in ssa.Instruction, st *ConcState) string {
			x, ok := in.(*ssa.Call)
			if !ok || !IsCallTo(x, "(*go.uber.org/zap.Logger).Check") {
				return ""
			}
			nCheck++
			msg := c14Resolve(st, Args(x)[2])
			if sl, ok := msg.(*ssa.Slice); ok && sl.Max == nil {
				lowOK := sl.Low == nil
				if k, known := st.Int(sl.Low); sl.Low != nil && known && k == 0 {
					lowOK = true
				}
				src, okSrc := isSprintln(st, sl.X)
				if lowOK && okSrc && sl.High != nil {
					if bo, ok := c14Resolve(st, sl.High).(*ssa.BinOp); ok && bo.Op == token.SUB {
						if k, known := st.Int(bo.Y); known && k == 1 {
							if ln, ok := c14Resolve(st, bo.X).(*ssa.Call); ok && CallBuiltin(ln) == "len" {
								if s2, ok2 := isSprintln(st, ln.Call.Args[0]); ok2 && s2 == src {
									return "check(sprintln-minus-last-byte)"
								}
							}
						}
					}
				}
			}
			// the same thing through a scratch buffer: Fprintln(buf, args...), ONE TrimNewline (removes exactly the final
			// '\n' Fprintln always writes), String(); nothing else written to the buffer
			if sc, ok := msg.(*ssa.Call); ok && IsCallTo(sc, "(*go.uber.org/zap/buffer.Buffer).String") && isFreshBuffer(Args(sc)[0]) {
				g := sc.Parent()
				buf := Strip(Args(sc)[0])
				nPrint, nTrim, other := 0, 0, 0
				var pr, tr ssa.Instruction
				for _, cl := range Calls(g) {
					a := Args(cl)
					switch {
					case IsCallTo(cl, "fmt.Fprintln") && len(a) == 2 && Strip(a[0]) == buf && c14Resolve(st, a[1]) == ssa.Value(argsP):
						nPrint++
						pr = cl
					case IsCallTo(cl, "(*go.uber.org/zap/buffer.Buffer).TrimNewline") && Strip(a[0]) == buf:
						nTrim++
						tr = cl
					case IsCallTo(cl, "(*go.uber.org/zap/buffer.Buffer).String", "(*go.uber.org/zap/buffer.Buffer).Free") || cl == ssa.CallInstruction(buf.(*ssa.Call)):
					default:
						for _, y := range a {
							if Strip(y) == buf {
								other++
							}
						}
					}
				}
				if nPrint == 1 && nTrim == 1 && other == 0 && Dominates(pr, tr) && Dominates(tr, sc) {
					return "check(sprintln-minus-last-byte)"
				}
			}
			return "check(" + st.Desc(Args(x)[2]) + ")"
		},
	})
	if trunc || len(seqs) == 0 {
		c.Und("R14.4", name, "sprintln-minus-last-byte", fn.Pos(), "path exploration incomplete (%d sequences)", len(seqs))
		return
	}
	var bad []string
	n := 0
	for _, sq := range seqs {
		for _, t := range strings.Split(sq, " ; ") {
			if strings.HasPrefix(t, "check(") {
				n++
				if t != "check(sprintln-minus-last-byte)" {
					bad = append(bad, t)
				}
			}
		}
	}
	c.Check(len(bad) == 0 && n > 0, "R14.4", name, "sprintln-minus-last-byte", fn.Pos(), "on every path the println-style message handed to Logger.Check is fmt.Sprintln(args...) without exactly its final byte (trimming more loses newlines the user passed): %v", bad)
}

// c14MessageF: by path exploration of SugaredLogger.log (helpers inline), with the number of arguments L symbolic: the
// message is the template itself when there are no arguments, fmt.Sprintf(template, args...) for a non-empty template,
// fmt.Sprint(args...) for an empty one (a lone string argument may stand for itself).
func c14MessageF(c *Ctx) {
	fn := c.Method(ZapPath, "SugaredLogger", "log")
	ti, ai := 2, 3
	name := ""
	if fn != nil {
		name = FStr(fn)
	}
	if fn == nil || len(fn.Params) != 5 {
		// the helper takes more than (level, template, args, context) - the message function, say: followed from a
		// printf-style method, whose template and arguments are as free as the helper's
		fn, ti, ai = c.Method(ZapPath, "SugaredLogger", "Infof"), 1, 2
		if name == "" && fn != nil {
			name = FStr(fn)
		}
	}
	if !c.Anchor("R14.4", "zap.SugaredLogger.log", fn != nil && len(fn.Params) > ai) {
		return
	}
	tmplP, argsP := fn.Params[ti], fn.Params[ai]
	var lin func(st *ConcState, v ssa.Value, d int) (a, b int64, ok bool)
	lin = func(st *ConcState, v ssa.Value, d int) (int64, int64, bool) {
		if k, known := st.Int(v); known {
			return k, 0, true
		}
		if d > 6 {
			return 0, 0, false
		}
		r := c14Resolve(st, v)
		switch x := r.(type) {
		case *ssa.Call:
			if CallBuiltin(x) == "len" && len(x.Call.Args) == 1 && c14Resolve(st, x.Call.Args[0]) == ssa.Value(argsP) {
				return 0, 1, true
			}
		case *ssa.BinOp:
			a1, b1, ok1 := lin(st, x.X, d+1)
			a2, b2, ok2 := lin(st, x.Y, d+1)
			if ok1 && ok2 {
				switch x.Op {
				case token.ADD:
					return a1 + a2, b1 + b2, true
				case token.SUB:
					return a1 - a2, b1 - b2, true
				}
			}
		}
		return 0, 0, false
	}
	isArgs := func(st *ConcState, v ssa.Value) bool { return c14Resolve(st, v) == ssa.Value(argsP) }
	isTmpl := func(st *ConcState, v ssa.Value) bool { return c14Resolve(st, v) == ssa.Value(tmplP) }
	seqs, trunc := ConcPaths(fn, ConcCfg{
		Inline: c14Inline,
		Event: func(in ssa.Instruction, st *ConcState) string {
			x, ok := in.(*ssa.Call)
			if !ok || !IsCallTo(x, "(*go.uber.org/zap.Logger).Check") {
				return ""
			}
			msg := c14Resolve(st, Args(x)[2])
			switch m := msg.(type) {
			case *ssa.Parameter:
				if m == tmplP {
					return "check(template)"
				}
			case *ssa.Call:
				switch {
				case IsCallTo(m, "fmt.Sprintf") && len(m.Call.Args) == 2 && isTmpl(st, m.Call.Args[0]) && isArgs(st, m.Call.Args[1]):
					return "check(sprintf)"
				case IsCallTo(m, "fmt.Sprint") && len(m.Call.Args) == 1 && isArgs(st, m.Call.Args[0]):
					return "check(sprint)"
				}
			case *ssa.Extract:
				if ta, ok := m.Tuple.(*ssa.TypeAssert); ok && m.Index == 0 && typeTag(ta.AssertedType) == "string" {
					if u, ok := c14Resolve(st, ta.X).(*ssa.UnOp); ok {
						if ia, ok := u.X.(*ssa.IndexAddr); ok && isArgs(st, ia.X) {
							if k, known := st.Int(ia.Index); known && k == 0 {
								return "check(lone-string)"
							}
						}
					}
				}
			}
			return "check(?" + st.Desc(Args(x)[2]) + ")"
		},
		Branch: func(cond ssa.Value, taken bool, st *ConcState) string {
			pol := taken
			for k := 0; k < 8; k++ {
				if u, ok := cond.(*ssa.UnOp); ok && u.Op == token.NOT {
					cond, pol = u.X, !pol
					continue
				}
				if nx := st.Step(cond); nx != nil {
					cond = nx
					continue
				}
				break
			}
			if ex, ok := cond.(*ssa.Extract); ok && ex.Index == 1 {
				if ta, ok := ex.Tuple.(*ssa.TypeAssert); ok && typeTag(ta.AssertedType) == "string" {
					if pol {
						return "isstring=T"
					}
					return "isstring=F"
				}
			}
			bo, ok := cond.(*ssa.BinOp)
			if !ok {
				return ""
			}
			// emptiness of the template
			emptyTest := func(x, y ssa.Value, op token.Token) (string, bool) {
				if !isTmpl(st, x) {
					if cl, ok := c14Resolve(st, x).(*ssa.Call); !ok || CallBuiltin(cl) != "len" || !isTmpl(st, cl.Call.Args[0]) {
						return "", false
					}
					if k, known := st.Int(y); !known || k != 0 {
						return "", false
					}
				} else if s, isC := ConstString(c14Resolve(st, y)); !isC || s != "" {
					return "", false
				}
				switch op {
				case token.EQL, token.LEQ:
					return map[bool]string{true: "E=T", false: "E=F"}[pol], true
				case token.NEQ, token.GTR:
					return map[bool]string{true: "E=F", false: "E=T"}[pol], true
				}
				return "", false
			}
			if e, ok := emptyTest(bo.X, bo.Y, bo.Op); ok {
				return e
			}
			if e, ok := emptyTest(bo.Y, bo.X, swapOp(bo.Op)); ok {
				return e
			}
			a1, b1, ok1 := lin(st, bo.X, 0)
			a2, b2, ok2 := lin(st, bo.Y, 0)
			if !ok1 || !ok2 {
				return ""
			}
			a, b, op := a1-a2, b1-b2, bo.Op
			if b == 0 {
				return ""
			}
			if b < 0 {
				a, b, op = -a, -b, swapOp(op)
			}
			if b != 1 {
				return "L?(" + st.Desc(cond) + ")"
			}
			if !pol {
				op = map[token.Token]token.Token{token.LSS: token.GEQ, token.LEQ: token.GTR, token.GTR: token.LEQ, token.GEQ: token.LSS, token.EQL: token.NEQ, token.NEQ: token.EQL}[op]
			}
			return "L" + op.String() + strconv.FormatInt(-a, 10)
		},
	})
	if trunc || len(seqs) == 0 {
		c.Und("R14.4", name, "template-verbatim", fn.Pos(), "path exploration incomplete (%d sequences)", len(seqs))
		return
	}
	const inf = int64(1) << 40
	bad := map[string][]string{}
	seen := map[string]bool{}
	fstyleSprint := ""
	for _, sq := range seqs {
		lo, hi := int64(0), inf
		empty, str0 := 0, 0
		feasible := true
		for _, t := range strings.Split(sq, " ; ") {
			switch {
			case t == "E=T" || t == "E=F":
				v := map[string]int{"E=T": 1, "E=F": -1}[t]
				if empty != 0 && empty != v {
					feasible = false
				}
				empty = v
			case t == "isstring=T":
				str0 = 1
			case t == "isstring=F":
				str0 = -1
			case strings.HasPrefix(t, "L?"):
				bad["template-verbatim"] = append(bad["template-verbatim"], "uninterpreted condition "+t)
			case len(t) > 2 && t[0] == 'L' && strings.ContainsAny(t[1:2], "<>=!"):
				i := 1
				for i < len(t) && strings.ContainsRune("<>=!", rune(t[i])) {
					i++
				}
				k, _ := strconv.ParseInt(t[i:], 10, 64)
				switch t[1:i] {
				case "<":
					hi = min(hi, k-1)
				case "<=":
					hi = min(hi, k)
				case ">":
					lo = max(lo, k+1)
				case ">=":
					lo = max(lo, k)
				case "==":
					lo, hi = max(lo, k), min(hi, k)
				case "!=":
					if lo == k {
						lo++
					}
					if hi == k {
						hi--
					}
				}
				if lo > hi {
					feasible = false
				}
			case strings.HasPrefix(t, "check(") && feasible:
				seen[t] = true
				switch t {
				case "check(template)":
					if hi != 0 {
						bad["template-verbatim"] = append(bad["template-verbatim"], "the bare template is the message although there may be arguments: "+sq)
					}
				case "check(sprintf)":
					if lo < 1 || empty != -1 {
						bad["sprintf"] = append(bad["sprintf"], "Sprintf is used without arguments or with a possibly empty template: "+sq)
					}
				case "check(sprint)":
					if lo < 1 || empty != 1 {
						bad["sprintf"] = append(bad["sprintf"], "Sprint is used although the template may be non-empty (it would be ignored) or there are no arguments: "+sq)
					} else {
						fstyleSprint = sq
					}
				case "check(lone-string)":
					if !(lo == 1 && hi == 1 && empty == 1 && str0 == 1) {
						bad["lone-string"] = append(bad["lone-string"], "the first argument itself is the message without it being the only argument, a string, and the template empty: "+sq)
					}
				default:
					bad["template-verbatim"] = append(bad["template-verbatim"], "unexpected message "+t)
				}
			}
		}
	}
	c.Check(len(bad["template-verbatim"]) == 0 && seen["check(template)"], "R14.4", name, "template-verbatim", fn.Pos(), "without arguments the template is the message verbatim, and only then %v", bad["template-verbatim"])
	c.Check(len(bad["sprintf"]) == 0 && seen["check(sprintf)"], "R14.4", name, "sprintf", fn.Pos(), "with arguments the message is fmt.Sprintf(template, args...) for a non-empty template and fmt.Sprint(args...) for an empty one %v", bad["sprintf"])
	if seen["check(lone-string)"] || len(bad["lone-string"]) > 0 {
		c.Check(len(bad["lone-string"]) == 0, "R14.4", name, "lone-string", fn.Pos(), "the lone-string shortcut returns args[0] itself only when it is the only argument, a string, and the template is empty (= fmt.Sprint of it) %v", bad["lone-string"])
	}
	if fstyleSprint != "" {
		// which callers pass a non-constant template?
		fstyle := false
		for _, cl := range c.CallersOf("(*go.uber.org/zap.SugaredLogger).log") {
			if _, isC := ConstString(Args(cl)[2]); !isC {
				fstyle = true
			}
		}
		c.Check(!fstyle, "R14.4", name, "fstyle-empty-template", fn.Pos(), "the shared helper sends template == \"\" ∧ len(args) > 0 to fmt.Sprint; printf-style callers (non-constant template) therefore get Sprint instead of fmt.Sprintf(\"\", args...) for an empty template")
	}
}
