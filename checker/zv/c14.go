package zv

import (
	"go/token"
	"strings"

	"golang.org/x/tools/go/ssa"
)

func init() {
	Props["C14"] = Prop{
		Title: "SugaredLogger never drops or misattributes loosely-typed arguments",
		Fn:    checkC14,
		Explanation: "Decides, by enumerating the exits of one iteration of the positional sweep (every back edge and every break edge of the loop in sweetenFields), that each exit advances the index by exactly the number of arguments it read (1 or 2, the second read guarded against running past the end) and accounts for what it read - appended to the fields, appended to the invalid-pair list, or reported through an error-level entry on every path to that exit; that only three representations are ever appended (the typed Field itself, zap.Error(err) for the first bare error only, zap.Any(key, value) for string-keyed pairs), that the first-error flag is set on the bare-error path only, and that collected invalid pairs are reported after the loop; the routing table of the 32 sugared methods (level, template/args/context slots, log vs logln) and of With/WithLazy; and the message helpers (Sprintln minus exactly its last byte; template verbatim without args; Sprintf / Sprint). " +
			"NOT decided: fmt's formatting, what zap.Any does with each value (C03).",
		Assumptions: commonAssumptions,
	}
}

// appendParts returns the base slice and the appended element values of an append call.
// varargElems: the values stored into the array behind a varargs slice.
func varargElems(v ssa.Value) (elems []ssa.Value) {
	sl, ok := v.(*ssa.Slice)
	if !ok {
		return nil
	}
	arr, ok := sl.X.(*ssa.Alloc)
	if !ok || arr.Referrers() == nil {
		return nil
	}
	for _, r := range *arr.Referrers() {
		if ia, ok := r.(*ssa.IndexAddr); ok && ia.Referrers() != nil {
			for _, rr := range *ia.Referrers() {
				if st, ok := rr.(*ssa.Store); ok && st.Addr == ssa.Value(ia) {
					elems = append(elems, st.Val)
				}
			}
		}
	}
	return elems
}

func appendParts(call *ssa.Call) (base ssa.Value, elems []ssa.Value) {
	if CallBuiltin(call) != "append" || len(call.Call.Args) != 2 {
		return nil, nil
	}
	base = call.Call.Args[0]
	sl, ok := call.Call.Args[1].(*ssa.Slice)
	if !ok {
		return base, nil
	}
	arr, ok := sl.X.(*ssa.Alloc)
	if !ok || arr.Referrers() == nil {
		return base, nil
	}
	for _, r := range *arr.Referrers() {
		if ia, ok := r.(*ssa.IndexAddr); ok && ia.Referrers() != nil {
			for _, rr := range *ia.Referrers() {
				if st, ok := rr.(*ssa.Store); ok && st.Addr == ssa.Value(ia) {
					elems = append(elems, st.Val)
				}
			}
		}
	}
	return base, elems
}

func checkC14(c *Ctx) {
	c.Rule("R14.1", "no silent drop: every loop exit advances by what it read and accounts for it", 6)
	c.Rule("R14.2", "representation: typed Field as is, first bare error via zap.Error, pairs via zap.Any; first-error flag only on the bare-error path", 3)
	c.Rule("R14.3", "routing table of the sugared methods: level, slots, helper", 21)
	c.Rule("R14.4", "message construction: Sprintln minus its last byte; template / Sprintf / Sprint", 3)
	c.Rule("R14.5", "a bare error or an error value never vanishes: zap.Error/NamedError skip exactly the nil interface, nothing else", 2)
	c3NilErrorR(c, "R14.5")

	fn := c.Method(ZapPath, "SugaredLogger", "sweetenFields")
	if !c.Anchor("R14.1", "zap.SugaredLogger.sweetenFields", fn != nil) {
		return
	}
	name := fn.String()
	args := fn.Params[1]
	// loop header: block with the phis named fields / invalid / seenError / i
	var H *ssa.BasicBlock
	var pF, pInv, pSeen, pI *ssa.Phi
	for _, b := range fn.Blocks {
		var f, iv, se, ii *ssa.Phi
		for _, in := range b.Instrs {
			if ph, ok := in.(*ssa.Phi); ok {
				switch ph.Comment {
				case "fields":
					f = ph
				case "invalid":
					iv = ph
				case "seenError":
					se = ph
				case "i":
					ii = ph
				}
			}
		}
		if f != nil && ii != nil && LoopHeader(b) == b {
			H, pF, pInv, pSeen, pI = b, f, iv, se, ii
		}
	}
	if H == nil || pInv == nil || pSeen == nil {
		c.Und("R14.1", name, "loop", fn.Pos(), "cannot identify the sweep loop with its fields/invalid/seenError/i variables")
		return
	}
	bodyStart := H.Succs[0]
	if !inLoop(bodyStart, H) {
		bodyStart = H.Succs[1]
	}
	inBody := func(b *ssa.BasicBlock) bool { return b != H && (b == bodyStart || bodyStart.Dominates(b)) }
	errorCallIn := func(b *ssa.BasicBlock) *ssa.Call {
		for _, in := range b.Instrs {
			if call, ok := in.(*ssa.Call); ok && IsCallTo(call, "(*go.uber.org/zap.Logger).Error") && Desc(Args(call)[0]) == "s.base" {
				return call
			}
		}
		return nil
	}
	reported := func(b *ssa.BasicBlock) bool {
		for d := b; d != nil && d != H; d = d.Idom() {
			if (inBody(d) || d == b) && errorCallIn(d) != nil {
				return true
			}
		}
		return false
	}
	isAppendOnto := func(v ssa.Value, onto *ssa.Phi) bool {
		call, ok := v.(*ssa.Call)
		if !ok {
			return false
		}
		base, _ := appendParts(call)
		for k := 0; k < 4 && base != nil; k++ {
			if base == ssa.Value(onto) {
				return true
			}
			if ph, ok := base.(*ssa.Phi); ok && ph.Block() != H {
				// e.g. invalid = make(...) on first use: φ(invalid, make)
				okAll := true
				for _, e := range ph.Edges {
					if e != ssa.Value(onto) {
						if _, isMake := e.(*ssa.MakeSlice); !isMake {
							okAll = false
						}
					}
				}
				return okAll
			}
			return false
		}
		return false
	}
	var accounted func(b *ssa.BasicBlock, fv, iv ssa.Value, depth int) bool
	accounted = func(b *ssa.BasicBlock, fv, iv ssa.Value, depth int) bool {
		if depth > 6 {
			return false
		}
		if isAppendOnto(fv, pF) || isAppendOnto(iv, pInv) || reported(b) {
			return true
		}
		var M *ssa.BasicBlock
		fph, fIsPhi := fv.(*ssa.Phi)
		iph, iIsPhi := iv.(*ssa.Phi)
		if fIsPhi && fph.Block() != H {
			M = fph.Block()
		} else if iIsPhi && iph.Block() != H {
			M = iph.Block()
		}
		if M == nil {
			return false
		}
		for j, p := range M.Preds {
			f2, i2 := fv, iv
			if fIsPhi && fph.Block() == M {
				f2 = fph.Edges[j]
			}
			if iIsPhi && iph.Block() == M {
				i2 = iph.Edges[j]
			}
			if !accounted(p, f2, i2, depth+1) {
				return false
			}
		}
		return true
	}
	readsPlus1 := func(b *ssa.BasicBlock) (bool, ssa.Instruction) {
		for d := b; d != nil && d != H; d = d.Idom() {
			for _, in := range d.Instrs {
				if ia, ok := in.(*ssa.IndexAddr); ok && ia.X == ssa.Value(args) {
					if bo, ok := ia.Index.(*ssa.BinOp); ok && bo.Op == token.ADD && bo.X == ssa.Value(pI) {
						return true, ia
					}
				}
			}
		}
		return false, nil
	}
	nExits := 0
	for j, p := range H.Preds {
		if !inBody(p) {
			continue
		}
		nExits++
		slot := "back-edge#" + itoa(nExits)
		inc, isInc := pI.Edges[j].(*ssa.BinOp)
		var k int64
		if isInc && inc.Op == token.ADD && inc.X == ssa.Value(pI) {
			k, _ = ConstInt(inc.Y)
		}
		r1, ia := readsPlus1(p)
		okAdv := (k == 1 && !r1) || (k == 2 && r1)
		c.Check(okAdv, "R14.1", name, slot+"/advance", p.Instrs[len(p.Instrs)-1].Pos(), "this path reads %d argument(s) and advances the index by %d (a mismatch re-reads a value as a key or skips an argument)", map[bool]int{true: 2, false: 1}[r1], k)
		if r1 && ia != nil {
			ok := HasAtom(Guards(ia), func(s string) bool { return s == Desc(pI)+" != (len(args) - 1)" })
			c.Check(ok, "R14.1", name, slot+"/second-read-in-bounds", ia.Pos(), "args[i+1] is read only after the dangling-key test i != len(args)-1")
		}
		c.Check(accounted(p, pF.Edges[j], pInv.Edges[j], 0), "R14.1", name, slot+"/accounted", p.Instrs[len(p.Instrs)-1].Pos(), "every way of reaching this loop exit appends to the fields, appends to the invalid pairs, or logs an error entry naming the argument (nothing vanishes)")
	}
	// break edges
	nBreak := 0
	for _, b := range fn.Blocks {
		if !inBody(b) {
			continue
		}
		for _, s := range b.Succs {
			if s != H && !inBody(s) {
				nBreak++
				c.Check(reported(b), "R14.1", name, "break#"+itoa(nBreak)+"/reported", b.Instrs[len(b.Instrs)-1].Pos(), "leaving the sweep early (dangling key) is preceded by an error entry carrying the ignored argument")
			}
		}
	}
	if nExits < 3 {
		c.Bad("R14.1", name, "exits", fn.Pos(), "expected at least three loop continuations (typed field, bare error, pair), found %d", nExits)
	}
	// after the loop: invalid pairs reported
	okInv := false
	for _, cl := range Calls(fn) {
		if IsCallTo(cl, "(*go.uber.org/zap.Logger).Error") && !inBody(cl.Block()) {
			okInv = HasAtom(Guards(cl), func(s string) bool { return s == "len("+Desc(pInv)+") > 0" }) && strings.Contains(Desc(cl.Common().Args[2]), "")
			var arr string
			for _, c2 := range Calls(fn) {
				if IsCallTo(c2, "go.uber.org/zap.Array") && c2.Block() == cl.Block() {
					arr = Desc(Args(c2)[1])
				}
			}
			okInv = okInv && arr == Desc(pInv)
		}
	}
	c.Check(okInv, "R14.1", name, "invalid-pairs-reported", fn.Pos(), "after the sweep, a non-empty invalid-pair list is logged at error level with all collected pairs")

	// ---------------- R14.2 ----------------
	nApp := 0
	AllInstrs(fn, func(i ssa.Instruction) {
		call, ok := i.(*ssa.Call)
		if !ok || !isAppendOnto(call, pF) {
			return
		}
		_, elems := appendParts(call)
		for _, e := range elems {
			nApp++
			d := Desc(e)
			form := ""
			switch {
			case d == "args["+Desc(pI)+"].(zapcore.Field)?#0" || d == "args["+Desc(pI)+"].(zap.Field)?#0":
				form = "typed Field as is"
			case d == "Error(args["+Desc(pI)+"].(error)?#0)":
				form = "zap.Error(err)"
				ok := HasAtom(Guards(call), func(s string) bool { return s == "!"+Desc(pSeen) })
				c.Check(ok, "R14.2", name, "first-error-only", call.Pos(), "zap.Error(err) is appended only while no bare error was seen before")
			case d == "Any(args["+Desc(pI)+"].(string)?#0, args[("+Desc(pI)+" + 1)])":
				form = "zap.Any(key, value)"
			}
			c.Check(form != "", "R14.2", name, "appended-form#"+itoa(nApp), call.Pos(), "appended element is %s (%s); any other constructor changes the representation zap.Any would choose", d, form)
		}
	})
	if nApp != 3 {
		c.Bad("R14.2", name, "append-sites", fn.Pos(), "expected three append sites onto the fields, found %d", nApp)
	}
	// seenError: `true` flows in only from the bare-error path
	var trueEdges []string
	okSeen := true
	var visit func(v ssa.Value, from *ssa.BasicBlock, depth int)
	visit = func(v ssa.Value, from *ssa.BasicBlock, depth int) {
		if depth > 5 {
			return
		}
		if cv, ok := v.(*ssa.Const); ok && cv.Value != nil && cv.Value.ExactString() == "true" {
			atoms := AtomStrings(GuardsOfBlock(from))
			trueEdges = append(trueEdges, strings.Join(atoms, ","))
			// (re)setting it on a later bare error changes nothing; setting it for anything else does
			if !containsS(atoms, "args["+Desc(pI)+"].(error)?#1") {
				okSeen = false
			}
			return
		}
		if ph, ok := v.(*ssa.Phi); ok && ph != pSeen {
			for j, e := range ph.Edges {
				visit(e, ph.Block().Preds[j], depth+1)
			}
		}
	}
	for j, e := range pSeen.Edges {
		if inBody(H.Preds[j]) {
			visit(e, H.Preds[j], 0)
		}
	}
	c.Check(okSeen && len(trueEdges) >= 1, "R14.2", name, "flag-set-on-bare-error-only", fn.Pos(), "the first-error flag becomes true only on the path that appends zap.Error for a bare error (paths setting it: %v); setting it elsewhere diverts the first bare error into a 'multiple errors' entry", trueEdges)

	c14Routing(c)
	c14Messages(c)
}

func c14Routing(c *Ctx) {
	for _, n := range append(append([]string{}, levelNames...), "Log") {
		for _, suf := range []string{"", "f", "w", "ln"} {
			fn := c.Method(ZapPath, "SugaredLogger", n+suf)
			if !c.Anchor("R14.3", "zap.SugaredLogger."+n+suf, fn != nil) {
				continue
			}
			helper := "(*go.uber.org/zap.SugaredLogger).log"
			if suf == "ln" {
				helper += "ln"
			}
			var call *ssa.Call
			for _, cl := range Calls(fn) {
				if IsCallTo(cl, helper) {
					call, _ = cl.(*ssa.Call)
				}
			}
			if call == nil {
				c.Bad("R14.3", fn.String(), "slots", fn.Pos(), "does not call %s", helper)
				continue
			}
			a := Args(call)[1:] // drop receiver
			// parameters of fn after receiver (and level for Log*)
			ps := fn.Params[1:]
			if n == "Log" {
				ps = ps[1:]
			}
			var got, want []string
			for _, x := range a[1:] {
				got = append(got, Desc(x))
			}
			switch suf {
			case "":
				want = []string{`""`, ps[0].Name(), "nil"}
			case "f":
				want = []string{ps[0].Name(), ps[1].Name(), "nil"}
			case "w":
				want = []string{ps[0].Name(), "nil", ps[1].Name()}
			case "ln":
				want = []string{ps[0].Name(), "nil"}
			}
			c.Check(strings.Join(got, "|") == strings.Join(want, "|") && Desc(Args(call)[0]) == "s", "R14.3", fn.String(), "slots", call.Pos(), "%s passes (template, fmtArgs, context) = %v (want %v)", n+suf, got, want)
		}
	}
	for _, m := range []string{"With", "WithLazy"} {
		fn := c.Method(ZapPath, "SugaredLogger", m)
		if !c.Anchor("R14.3", "zap.SugaredLogger."+m, fn != nil) {
			continue
		}
		ok := false
		for _, st := range FieldStoresOf(fn, c.Named(ZapPath, "SugaredLogger")) {
			d := Desc(st.Instr.Val)
			ok = st.Field == "base" && d == m+"(s.base, sweetenFields(s, args))"
			if !ok {
				ok = st.Field == "base" && strings.HasPrefix(d, m+"(s.base, sweetenFields(s, args)")
			}
		}
		c.Check(ok, "R14.3", fn.String(), "sweetens-then-delegates", fn.Pos(), "%s wraps base.%s(sweetenFields(args)...) in a new SugaredLogger", m, m)
	}
}

func c14Messages(c *Ctx) {
	ln := c.Func(ZapPath, "getMessageln")
	if c.Anchor("R14.4", "zap.getMessageln", ln != nil) {
		for k, r := range Returns(ln) {
			d := Desc(RetVals(r)[0])
			want := "Sprintln(fmtArgs)[:(len(Sprintln(fmtArgs)) - 1)]"
			if d != want {
				// the same thing through a scratch buffer: Fprintln(buf, args...), ONE TrimNewline (removes exactly the
				// final '\n' Fprintln always writes), String(); nothing else written to the buffer
				if sc, ok := Strip(RetVals(r)[0]).(*ssa.Call); ok && IsCallTo(sc, "(*go.uber.org/zap/buffer.Buffer).String") && isFreshBuffer(Args(sc)[0]) {
					buf := Strip(Args(sc)[0])
					nPrint, nTrim, other := 0, 0, 0
					var pr, tr ssa.Instruction
					for _, cl := range Calls(ln) {
						a := Args(cl)
						switch {
						case IsCallTo(cl, "fmt.Fprintln") && len(a) == 2 && Strip(a[0]) == buf && Desc(a[1]) == ln.Params[0].Name():
							nPrint++
							pr = cl
						case IsCallTo(cl, "(*go.uber.org/zap/buffer.Buffer).TrimNewline") && Strip(a[0]) == buf:
							nTrim++
							tr = cl
						case IsCallTo(cl, "(*go.uber.org/zap/buffer.Buffer).String", "(*go.uber.org/zap/buffer.Buffer).Free") || cl == ssa.CallInstruction(buf.(*ssa.Call)):
						default:
							for _, x := range a {
								if Strip(x) == buf {
									other++
								}
							}
						}
					}
					if nPrint == 1 && nTrim == 1 && other == 0 && Dominates(pr, tr) && Dominates(tr, sc) {
						d = want
					}
				}
			}
			c.Check(d == want, "R14.4", ln.String(), "sprintln-minus-last-byte#"+itoa(k+1), r.Pos(), "the println-style message is fmt.Sprintln(args...) without exactly its final byte (%s); trimming more loses newlines the user passed", d)
		}
	}
	gm := c.Func(ZapPath, "getMessage")
	if c.Anchor("R14.4", "zap.getMessage", gm != nil) {
		for k, r := range Returns(gm) {
			d := Desc(RetVals(r)[0])
			atoms := AtomStrings(Guards(r))
			slot := "return#" + itoa(k+1)
			switch {
			case d == "template":
				c.Check(containsS(atoms, "len(fmtArgs) == 0"), "R14.4", gm.String(), "template-verbatim", r.Pos(), "without arguments the template is the message verbatim (guards %v)", atoms)
			case d == "Sprintf(template, fmtArgs)":
				c.Check(containsS(atoms, "len(fmtArgs) > 0"), "R14.4", gm.String(), "sprintf", r.Pos(), "with arguments and a template the message is fmt.Sprintf(template, args...)")
			case d == "Sprint(fmtArgs)" || strings.HasSuffix(d, ".(string)?#0"):
				// print-style result; reachable for f-style callers when the template is empty at run time
				if containsS(atoms, `template == ""`) && containsS(atoms, "len(fmtArgs) > 0") {
					// which callers pass a non-constant template?
					fstyle := false
					lg := c.Method(ZapPath, "SugaredLogger", "log")
					for _, cl := range c.CallersOf("(*go.uber.org/zap.SugaredLogger).log") {
						if _, isC := ConstString(Args(cl)[2]); !isC {
							fstyle = true
						}
					}
					_ = lg
					if d == "Sprint(fmtArgs)" {
						c.Check(!fstyle, "R14.4", gm.String(), "fstyle-empty-template", r.Pos(), "the shared helper sends template == \"\" ∧ len(args) > 0 to fmt.Sprint; printf-style callers (non-constant template) therefore get Sprint instead of fmt.Sprintf(\"\", args...) for an empty template")
					}
				} else {
					c.Bad("R14.4", gm.String(), slot, r.Pos(), "print-style result %s under unexpected guards %v", d, atoms)
				}
			default:
				c.Bad("R14.4", gm.String(), slot, r.Pos(), "unexpected message expression %s", d)
			}
		}
		// the lone-string shortcut equals Sprint for a single string
		for _, r := range Returns(gm) {
			d := Desc(RetVals(r)[0])
			if strings.HasSuffix(d, ".(string)?#0") {
				atoms := AtomStrings(Guards(r))
				c.Check(containsS(atoms, "len(fmtArgs) == 1") && d == "fmtArgs[0].(string)?#0", "R14.4", gm.String(), "lone-string", r.Pos(), "the lone-string shortcut returns fmtArgs[0] itself when it is the only argument and a string (= fmt.Sprint of it)")
			}
		}
	}
}
