package zv

import (
	"go/token"
	"go/types"
	"strings"

	"golang.org/x/tools/go/ssa"
)

func init() {
	Props["C10"] = Prop{
		Title: "Field and sink failures are contained and reported; the entry is never lost",
		Fn:    checkC10,
		Explanation: "Decides the containment structure: every call of a user value's String()/Error() that zap makes on a field payload happens in a function whose deferred closure itself calls recover() and converts the panic into the returned error or a \"<nil>\" string; every marshaler error reaches Field.AddTo's error test and becomes a '<key>Error' string field, and no encoder/marshaler error result is dropped anywhere; output stays well-formed on failure (array/object closers and the namespace bookkeeping are on every path incl. the error path; a reflected value is encoded BEFORE its key or separator is written and an encoding error returns before any write); CheckedEntry.Write, tees, multi-syncers and hook cores visit every element with no early exit and fold every error with multierr.Append; a non-nil aggregate is printed to ErrorOutput when set, with no panic on that path; ioCore.Write returns the sink's error; Logger.check threads the logger's error output into every entry that will be written. " +
			"Also decided, by path exploration with the inner calls' outcomes forked: tees, multi-syncers and hooks return a non-nil error exactly when some inner call failed, whatever accumulates the errors; Config.Build lets the caller's options take effect after the configuration's (a caller-supplied ErrorOutput is the sink write failures are reported on). " +
			"NOT decided: marshalers that panic themselves, the text of the messages.",
		Assumptions: commonAssumptions,
	}
}

func checkC10(c *Ctx) {
	c.Rule("R10.1", "user String()/Error() on field payloads only under a deferred closure that itself recovers", 4)
	c.Rule("R10.2", "marshaler failures become '<key>Error'; no encoder/marshaler error dropped", 15)
	c.Rule("R10.3", "output stays well-formed on failure: closers on the error path; reflected value encoded before any write", 12)
	c.Rule("R10.4", "all cores, all sinks, all errors: exhaustive loops folding errors; aggregate reported; sink error returned", 9)
	c.Rule("R10.11", "the in-memory encoders (MapObjectEncoder, its array encoder) keep what a nested marshaler produced before it failed: every path of a method that runs a marshaler stores the nested value into the receiver", 4)
	c10MemoryKeepsPartial(c, "R10.11")
	c.Rule("R10.6", "Config.Build: the caller's options take effect after the configuration's (a caller-supplied ErrorOutput is the one write failures are reported on)", 1)
	c10BuildOptionOrder(c, "R10.6")
	c.Rule("R10.5", "the logger's error output is threaded into every entry that will be written", 1)

	c10Recover(c, "R10.1")

	// ---------------- R10.2 ----------------
	c1Errors(c, "R10.2")

	// ---------------- R10.3 ----------------
	c1Pairing(c, "R10.3")
	c1Namespaces(c, "R10.3")
	c10Reflected(c, "R10.3")
	c.Rule("R10.8", "no loop overwrites an error it carried over from an earlier round without having looked at it (the failure of every element but the last would vanish)", 1)
	c10NoErrorOverwrittenInLoop(c, "R10.8")
	c.Rule("R10.7", "the reflection scratch buffer is emptied (or freshly taken) on every path before a value is encoded into it: what a failed encoding left behind never reaches a later value", 1)
	c.Rule("R10.9", "a failing sink never makes the BufferedWriteSyncer forget what it holds: its bufio.Writer is never Reset (bytes already accepted and the error bufio keeps for the next caller would both vanish)", 2)
	c.Rule("R10.10", "every element of a zap.Stringers array is converted by the panic-containing conversion, whose error the array reports", 1)
	c10StringersContained(c, "R10.10")
	c12SinkOwnership(c, "R10.9")
	c10ScratchReset(c, "R10.7")

	// ---------------- R10.4 ----------------
	type loopT struct{ pkg, typ, m, inner string }
	for _, t := range []loopT{
		{CorePath, "CheckedEntry", "Write", "(go.uber.org/zap/zapcore.Core).Write"},
		{CorePath, "multiCore", "Write", "(go.uber.org/zap/zapcore.Core).Write"},
		{CorePath, "multiCore", "Sync", "(go.uber.org/zap/zapcore.Core).Sync"},
		{CorePath, "multiWriteSyncer", "Write", "(io.Writer).Write"},
		{CorePath, "multiWriteSyncer", "Sync", "(go.uber.org/zap/zapcore.WriteSyncer).Sync"},
	} {
		fn := c.Method(t.pkg, t.typ, t.m)
		if !c.Anchor("R10.4", t.pkg+"."+t.typ+"."+t.m, fn != nil) {
			continue
		}
		tt := t
		sel := func(cl ssa.CallInstruction) bool {
			return (IsCallTo(cl, tt.inner) || IsCallTo(cl, "(go.uber.org/zap/zapcore.WriteSyncer).Write")) && cl.Common().IsInvoke() && FNm(cl.Common().Method) == tt.m
		}
		var inner *ssa.Call
		if t.typ == "CheckedEntry" {
			for _, cl := range CallsDeep(fn) {
				if sel(cl) {
					inner, _ = cl.(*ssa.Call)
				}
			}
			if inner == nil {
				c.Bad("R10.4", FStr(fn), "visits-all", fn.Pos(), "no delegating call")
				continue
			}
			ok, over, why := LoopVisitsAll(inner.Parent(), inner)
			c.Check(ok, "R10.4", FStr(fn), "visits-all", inner.Pos(), "every element of %s is visited whatever the earlier ones returned %s", over, why)
		} else {
			ok, why, in2, _ := VisitsAll(fn, sel, fn.Params[0])
			inner = in2
			pos := fn.Pos()
			if inner != nil {
				pos = inner.Pos()
			}
			c.Check(ok, "R10.4", FStr(fn), "visits-all", pos, "every element of %s is visited whatever the earlier ones returned %s", PN(fn.Params[0]), why)
			if inner == nil {
				continue
			}
		}
		// errors folded
		if t.typ == "CheckedEntry" {
			c13ErrFold(c, inner.Parent(), inner, inner, "R10.4", FStr(fn)+"/fold")
		} else {
			c13ErrFold(c, inner.Parent(), inner, inner, "R10.4", FStr(fn))
		}
	}
	// hooked.Write runs all hooks and folds errors
	hw := c.Method(CorePath, "hooked", "Write")
	if c.Anchor("R10.4", "zapcore.hooked.Write", hw != nil) {
		var hc *ssa.Call
		for _, cl := range Calls(hw) {
			if call, ok := cl.(*ssa.Call); ok && strings.HasPrefix(Desc(call.Call.Value), "h.funcs[") {
				hc = call
			}
		}
		if hc == nil {
			c.Bad("R10.4", FStr(hw), "visits-all", hw.Pos(), "no hook call")
		} else {
			ok, over, why := LoopVisitsAll(hw, hc)
			c.Check(ok && over == "h.funcs", "R10.4", FStr(hw), "visits-all", hc.Pos(), "every hook runs (range over %s) %s", over, why)
			c13ErrFold(c, hw, hc, hc, "R10.4", FStr(hw))
		}
	}
	// CheckedEntry.Write reports the aggregate
	cw := c.Method(CorePath, "CheckedEntry", "Write")
	if cw != nil {
		rc := PN(cw.Params[0])
		// atoms that test the aggregate error against nil
		aggAtoms := map[string]bool{}
		for _, f := range Region(cw) {
			for _, b := range f.Blocks {
				if iff, ok := b.Instrs[len(b.Instrs)-1].(*ssa.If); ok {
					if bo, isB := iff.Cond.(*ssa.BinOp); isB && IsNilConst(bo.Y) && carriesAppend(bo.X, 0) {
						aggAtoms[atomStringRaw(Atom{iff.Cond, bo.Op == token.NEQ})] = true
					}
				}
			}
		}
		// a report: something printed to the entry's ErrorOutput under {aggregate != nil, ErrorOutput != nil} and nothing else
		ok := false
		var seenConds [][]string
		for _, cl := range CallsDeep(cw) {
			if !IsCallTo(cl, "fmt.Fprintf", "fmt.Fprintln", "fmt.Fprint") {
				continue
			}
			var dst string
			Bound(func() { dst = Desc(cl.Common().Args[0]) })
			if !strings.HasSuffix(dst, ".ErrorOutput") {
				continue
			}
			for _, conj := range PathConds(cl.Block()) {
				hasAgg, clean := false, true
				for _, a := range conj {
					switch {
					case aggAtoms[a]:
						hasAgg = true
					case strings.HasSuffix(a, ".ErrorOutput != nil"), a == rc+" != nil", a == "!"+rc+".dirty", strings.Contains(a, "rangeindex"), strings.Contains(a, "len("):
					default:
						clean = false
					}
				}
				seenConds = append(seenConds, conj)
				if hasAgg && clean && containsSuffix(conj, ".ErrorOutput != nil") {
					ok = true
				}
			}
		}
		c.Check(ok && len(aggAtoms) > 0, "R10.4", FStr(cw), "aggregate-reported", cw.Pos(), "a non-nil aggregate error is printed to the entry's ErrorOutput when one is set, under no further condition (report path conditions seen: %v)", firstConds(seenConds, 3))
		panics := 0
		AllInstrs(cw, func(i ssa.Instruction) {
			if _, isP := i.(*ssa.Panic); isP {
				panics++
			}
		})
		c.Check(panics == 0, "R10.4", FStr(cw), "returns-normally", cw.Pos(), "CheckedEntry.Write contains no panic: core errors never abort the logging call")
	}
	// ioCore.Write returns the sink's error
	iw := c.Method(CorePath, "ioCore", "Write")
	if c.Anchor("R10.4", "zapcore.ioCore.Write", iw != nil) {
		okS, okE := false, false
		var sinkW, encC *ssa.Call
		for _, cl := range CallsDeep(iw) {
			var d string
			Bound(func() {
				if len(Args(cl)) > 0 {
					d = Desc(Args(cl)[0])
				}
			})
			if IsCallTo(cl, "(io.Writer).Write", "(go.uber.org/zap/zapcore.WriteSyncer).Write") && strings.HasSuffix(d, ".out") {
				sinkW, _ = cl.(*ssa.Call)
			}
			if IsCallTo(cl, "(go.uber.org/zap/zapcore.Encoder).EncodeEntry") {
				encC, _ = cl.(*ssa.Call)
			}
		}
		whyS, whyE := "sink write not found", "EncodeEntry call not found"
		if sinkW != nil {
			okS, whyS = errPropagated(iw, sinkW, 1)
		}
		if encC != nil {
			okE, whyE = errPropagated(iw, encC, 1)
		}
		if !okS || !okE {
			c.Bad("R10.4", FStr(iw), "returns-failures", iw.Pos(), "encoder and sink errors are returned to the caller (which folds and reports them): sink: %s; encoder: %s", whyS, whyE)
		}
		if okS && okE {
			c.OK("R10.4", FStr(iw), "returns-failures", iw.Pos(), "on every path from the encoder call and from the sink write to a return, a non-nil error of that call is what the function returns (a return of anything else is guarded by that error being nil)")
		}
	}

	// ---------------- R10.5 ----------------
	chk := c.Method(ZapPath, "Logger", "check")
	if c.Anchor("R10.5", "zap.Logger.check", chk != nil) {
		// by path exploration (helpers inline): on every path where the core's answer was tested non-nil, the logger's
		// error output is stored into the checked entry before check returns
		ln := PN(chk.Params[0])
		resolve := func(st *ConcState, v ssa.Value) ssa.Value {
			for k := 0; k < 16; k++ {
				nx := st.Step(v)
				if nx == nil {
					break
				}
				v = nx
			}
			return v
		}
		seqs, trunc := ConcPaths(chk, ConcCfg{
			Prune: true, MaxStates: 400000,
			Event: func(in ssa.Instruction, st *ConcState) string {
				switch x := in.(type) {
				case *ssa.Store:
					if fa, isFA := x.Addr.(*ssa.FieldAddr); isFA && fieldName(fa.X.Type(), fa.Field) == "ErrorOutput" {
						if st.Desc(x.Val) == ln+".errorOutput" {
							return "errout"
						}
						return "errout(?" + st.Desc(x.Val) + ")"
					}
				case *ssa.Return:
					if len(st.cfg.stackDepth()) == 0 {
						return "ret"
					}
				}
				return ""
			},
			Branch: func(cond ssa.Value, taken bool, st *ConcState) string {
				pol := taken
				for k := 0; k < 8; k++ {
					if u, isU := cond.(*ssa.UnOp); isU && u.Op == token.NOT {
						cond, pol = u.X, !pol
						continue
					}
					if nx := st.Step(cond); nx != nil {
						cond = nx
						continue
					}
					break
				}
				bo, isBO := cond.(*ssa.BinOp)
				if !isBO || !IsNilConst(bo.Y) || (bo.Op != token.EQL && bo.Op != token.NEQ) {
					return ""
				}
				if cl, isCall := resolve(st, bo.X).(*ssa.Call); isCall && IsCallTo(cl, "(go.uber.org/zap/zapcore.Core).Check") {
					if pol == (bo.Op == token.NEQ) {
						return "accepted"
					}
					return "declined"
				}
				return ""
			},
		})
		ok := !trunc && len(seqs) > 0
		nAcc := 0
		for _, sq := range seqs {
			if strings.Contains(sq, "accepted") {
				nAcc++
				i1, i2 := strings.Index(sq, "errout"), strings.LastIndex(sq, "ret")
				if i1 < 0 || i2 < i1 || strings.Contains(sq, "errout(?") {
					ok = false
				}
			}
		}
		ok = ok && nAcc > 0
		c.Check(ok, "R10.5", FStr(chk), "error-output-threaded", chk.Pos(), "every entry that some core accepted carries the logger's error output before check returns")
	}
	_ = types.Typ
}

// c10Fold: CheckedEntry.Write folds each core's error into err with multierr.Append.
func c10Fold(c *Ctx, fn *ssa.Function, inner *ssa.Call, _ bool) {
	c13ErrFold(c, fn, inner, inner, "R10.4", FStr(fn)+"/fold")
}

// carriesAppend: v is (or an eligible helper returns) the accumulator fed by multierr.Append.
func carriesAppend(v ssa.Value, depth int) bool {
	if depth > 4 {
		return false
	}
	switch x := Strip(v).(type) {
	case *ssa.Phi:
		for _, e := range x.Edges {
			if carriesAppend(e, depth+1) {
				return true
			}
		}
	case *ssa.Call:
		if IsCallTo(x, "go.uber.org/multierr.Append") {
			return true
		}
		if h := helperOf(x); h != nil {
			for _, r := range Returns(h) {
				for _, rv := range RetVals(r) {
					if carriesAppend(rv, depth+1) {
						return true
					}
				}
			}
		}
	}
	return false
}

func containsSuffix(l []string, suf string) bool {
	for _, x := range l {
		if strings.HasSuffix(x, suf) {
			return true
		}
	}
	return false
}

func firstConds(c [][]string, n int) [][]string {
	if len(c) > n {
		return c[:n]
	}
	return c
}

// c10IsPayload: v reaches zap from its user: it is (an element / a type
// assertion of) a parameter of an API function - or of an unexported helper
// some call site of which passes such a value.
func c10IsPayload(v ssa.Value, depth int) bool {
	r := v
	for k := 0; k < 6; k++ {
		switch x := r.(type) {
		case *ssa.TypeAssert:
			r = x.X
			continue
		case *ssa.UnOp:
			if ia, ok := x.X.(*ssa.IndexAddr); ok {
				r = ia.X
				continue
			}
		case *ssa.Index:
			r = x.X
			continue
		case *ssa.Extract:
			if ta, ok := x.Tuple.(*ssa.TypeAssert); ok {
				r = ta.X
				continue
			}
			if nx, ok := x.Tuple.(*ssa.Next); ok {
				if rg, ok := nx.Iter.(*ssa.Range); ok {
					r = rg.X
					continue
				}
			}
		case *ssa.Call:
			// an accessor of a library value that carries the user's payload (slog.Value.Any() of an attribute)
			if sc := x.Call.StaticCallee(); sc != nil && !curProgRoot(sc) && sc.Signature.Recv() != nil && len(x.Call.Args) >= 1 {
				r = x.Call.Args[0]
				continue
			}
		case *ssa.Field:
			r = x.X
			continue
		}
		break
	}
	p, isParam := Strip(r).(*ssa.Parameter)
	if !isParam {
		// a field of a parameter struct (the Field's Interface slot)
		rt := Root(r)
		if a, ok := rt.(*ssa.Alloc); ok {
			if st := singleStore(a); st != nil {
				rt = Strip(st)
			}
		}
		p, isParam = rt.(*ssa.Parameter)
	}
	if !isParam {
		return false
	}
	f := p.Parent()
	if depth > 4 || !Eligible(f) || len(sitesOf(f)) == 0 {
		return true
	}
	idx := -1
	for i, q := range f.Params {
		if q == p {
			idx = i
		}
	}
	for _, s := range sitesOf(f) {
		args := Args(s)
		if idx < 0 || idx >= len(args) || c10IsPayload(args[idx], depth+1) {
			return true
		}
	}
	return false
}

// errPropagated decides: on every path from the call src (in fn, or in an
// eligible helper fn calls) to a return of fn, a non-nil error result #idx of
// src is returned to fn's caller. A return (or a φ edge feeding a return)
// whose value does not carry that error must be guarded by "<err> == nil".
func errPropagated(fn *ssa.Function, src *ssa.Call, idx int) (bool, string) {
	if src.Parent() != fn {
		// the call sits in a helper: the helper must propagate, and fn must propagate the helper's result
		h := src.Parent()
		ok, why := errPropagated(h, src, idx)
		if !ok {
			return false, "in helper " + FNm(h) + ": " + why
		}
		for _, cl := range Calls(fn) {
			if c2, isC := cl.(*ssa.Call); isC && StaticCallee(c2) == h {
				res := h.Signature.Results()
				ei := -1
				for k := 0; k < res.Len(); k++ {
					if types.Identical(res.At(k).Type(), types.Universe.Lookup("error").Type()) {
						ei = k
					}
				}
				if ei < 0 {
					return false, "helper " + FNm(h) + " has no error result"
				}
				if res.Len() == 1 {
					ei = -1
				}
				return errPropagated(fn, c2, ei)
			}
		}
		return false, "call site of helper " + FNm(h) + " not found"
	}
	var errV ssa.Value
	if idx < 0 {
		errV = src
	} else if src.Referrers() != nil {
		for _, r := range *src.Referrers() {
			if ex, ok := r.(*ssa.Extract); ok && ex.Index == idx {
				errV = ex
			}
		}
	}
	if errV == nil {
		return false, "the error result is discarded"
	}
	ed := Desc(errV)
	nilGuard := func(atoms []Atom) bool {
		for _, a := range AtomStrings(atoms) {
			if a == ed+" == nil" {
				return true
			}
		}
		return false
	}
	isRet := func(i ssa.Instruction) bool { return false }
	n := 0
	for _, r := range Returns(fn) {
		rr := r
		if r.Block() != src.Block() && !ExistsPath(fn, src, func(i ssa.Instruction) bool { return i == ssa.Instruction(rr) }, isRet) {
			continue
		}
		if r.Block() == src.Block() && instrIndex(r) < instrIndex(src) {
			continue
		}
		n++
		vals := RetVals(r)
		v := Strip(vals[len(vals)-1])
		if nilGuard(Guards(r)) {
			continue
		}
		if ph, isPhi := v.(*ssa.Phi); isPhi {
			for k, e := range ph.Edges {
				if carriesErr(Strip(e), errV, 0) {
					continue
				}
				pred := ph.Block().Preds[k]
				if !nilGuard(GuardsOfBlock(pred)) && !nilGuard(edgeGuards(pred, ph.Block())) {
					return false, "return at " + posStr(fn, r.Pos()) + " may return " + Desc(e) + " while " + ed + " is non-nil"
				}
			}
			continue
		}
		if !carriesErr(v, errV, 0) {
			return false, "return at " + posStr(fn, r.Pos()) + " returns " + Desc(v) + " while " + ed + " may be non-nil"
		}
	}
	if n == 0 {
		return false, "no return is reachable from the call"
	}
	return true, ""
}

// carriesErr: v is errV itself, or an aggregate (multierr.Append/Combine, fmt.Errorf %w, errors.Join) / φ / helper result built from it.
func carriesErr(v, errV ssa.Value, depth int) bool {
	if v == errV {
		return true
	}
	if depth > 4 {
		return false
	}
	switch x := v.(type) {
	case *ssa.Phi:
		for _, e := range x.Edges {
			if !carriesErr(Strip(e), errV, depth+1) && !IsNilConst(Strip(e)) {
				return false
			}
		}
		for _, e := range x.Edges {
			if carriesErr(Strip(e), errV, depth+1) {
				return true
			}
		}
	case *ssa.Call:
		if f := CalleeFunc(x); f != nil {
			switch f.FullName() {
			case "go.uber.org/multierr.Append", "go.uber.org/multierr.Combine", "errors.Join", "fmt.Errorf":
				for _, a := range x.Call.Args {
					if carriesErr(Strip(a), errV, depth+1) {
						return true
					}
				}
			}
		}
	case *ssa.MakeInterface:
		return carriesErr(Strip(x.X), errV, depth+1)
	}
	return false
}

// edgeGuards returns the atom contributed by the branch pred→succ itself.
func edgeGuards(pred, succ *ssa.BasicBlock) []Atom {
	if len(pred.Instrs) == 0 {
		return nil
	}
	if _, ok := pred.Instrs[len(pred.Instrs)-1].(*ssa.If); !ok {
		return nil
	}
	if len(succ.Instrs) == 0 {
		return nil
	}
	var out []Atom
	all := GuardsOfBlock(succ)
	base := GuardsOfBlock(pred)
	if len(succ.Preds) == 1 {
		return all[len(base):]
	}
	return out
}

func posStr(fn *ssa.Function, p token.Pos) string {
	if fn.Prog == nil || !p.IsValid() {
		return "?"
	}
	ps := fn.Prog.Fset.Position(p)
	return itoa(ps.Line)
}

// c10Recover: every call zap makes of a user value's String()/Error()/Errors() on a field payload runs under a
// deferred closure that itself calls recover() and converts the panic.
func c10Recover(c *Ctx, rule string) {
	// ---------------- R10.1 ----------------
	n := 0
	payloadFns := map[*ssa.Function]bool{}
	recoverers := map[*ssa.Function][]*ssa.Function{}
	c.EachRootFunc(func(fn *ssa.Function) {
		if fn.Pkg == nil {
			return
		}
		p := fn.Pkg.Pkg.Path()
		if p != ZapPath && p != CorePath && p != SlogPath && p != "go.uber.org/zap/exp/zapfield" {
			// (the front ends that turn user values into fields count too: a String()/Error() they call eagerly runs
			// outside the encoder's recover)
			return
		}
		for _, cl := range Calls(fn) {
			call, ok := cl.(*ssa.Call)
			if !ok || !call.Call.IsInvoke() {
				continue
			}
			m := call.Call.Method
			full := m.FullName()
			if full != "(fmt.Stringer).String" && full != "(error).Error" {
				// type-parameter receivers constrained by fmt.Stringer; the error-group accessor of a user error
				isGroup := FNm(m) == "Errors" && strings.HasSuffix(full, "errorGroup).Errors")
				if !(FNm(m) == "String" && strings.Contains(full, "Stringer")) && !isGroup {
					continue
				}
			}
			recv := call.Call.Value
			d := Desc(recv)
			// payload classification: errors returned by marshalers (locals named err from a call) are a separate, listed class
			// a field payload reaches zap through a parameter (the value itself, an element of a slice
			// parameter/receiver, a type assertion of an interface{} parameter); errors zap received
			// from marshalers/sinks are call results
			isPayload := c10IsPayload(recv, 0)
			if !isPayload {
				if p == CorePath || p == ZapPath {
					c.Triv(rule, FuncKey(fn), "listed/"+FNm(m)+"("+d+")", call.Pos(), "%s() on %s: an error zap itself received from a marshaler/sink or built (not a user field payload) - listed, not required to be under recover", FNm(m), d)
				}
				continue
			}
			n++
			payloadFns[fn] = true
			// deferred closure that directly calls recover()
			rec := false
			AllInstrs(fn, func(i ssa.Instruction) {
				df, ok := i.(*ssa.Defer)
				if !ok {
					return
				}
				// the deferred function itself - a literal, or a named function deferred directly - calls recover()
				var g *ssa.Function
				if mk, ok := df.Call.Value.(*ssa.MakeClosure); ok {
					g, _ = mk.Fn.(*ssa.Function)
				} else if sc := df.Call.StaticCallee(); sc != nil && len(sc.Blocks) > 0 {
					g = sc
				}
				if g == nil {
					return
				}
				for _, c2 := range Calls(g) {
					if CallBuiltin(c2) == "recover" && Dominates(df, call) {
						rec = true
						recoverers[fn] = append(recoverers[fn], g)
					}
				}
			})
			c.Check(rec, rule, FuncKey(fn), "recover/"+FNm(m)+"("+d+")", call.Pos(), "the user's %s() runs after a defer whose closure calls recover() itself (recover in a helper called from the deferred function is one frame too deep and does nothing)", FNm(m))
		}
	})
	if n < 3 {
		c.Bad(rule, "payload calls", "count", token.NoPos, "expected at least 3 String()/Error() calls on field payloads, found %d", n)
	}
	// the recover closures convert: nil pointer → "<nil>", otherwise retErr = PANIC=…
	for _, fn := range c.RootFuncs() {
		if !payloadFns[fn] {
			continue
		}
		okNil, okErr := false, false
		region := Region(fn)
		for _, g := range recoverers[fn] {
			region = append(region, Region(g)...)
		}
		if _, hands := returnsRecovered(fn); hands {
			// the recovered value is handed back as data: the callers convert it
			for _, s := range sitesOf(fn) {
				region = append(region, Region(s.Parent())...)
			}
		}
		for _, f := range region {
			AllInstrs(f, func(i ssa.Instruction) {
				switch x := i.(type) {
				case *ssa.Call:
					if x.Call.IsInvoke() && FNm(x.Call.Method) == "AddString" && Desc(x.Call.Args[1]) == `"<nil>"` {
						okNil = true
					}
					if f2 := CalleeFunc(x); f2 != nil && f2.FullName() == "fmt.Errorf" {
						if s, ok := ConstString(x.Call.Args[0]); ok && strings.HasPrefix(s, "PANIC=") {
							okErr = true
						}
					}
				case *ssa.Store:
					if Desc(x.Val) == `"<nil>"` {
						okNil = true
					}
				case *ssa.Return:
					for _, rv := range x.Results {
						if sv, isS := ConstString(rv); isS && sv == "<nil>" {
							okNil = true
						}
					}
				}
			})
		}
		// the handler must not panic itself: reflect.TypeOf of a nil interface is nil, so a method called on its
		// result (Kind(), Elem(), …) panics a second time - inside the deferred function, where nothing recovers
		var second []string
		for _, g := range recoverers[fn] {
			for _, f := range Region(g) {
				for _, cl := range Calls(f) {
					cm := cl.Common()
					if !cm.IsInvoke() {
						continue
					}
					if tc, isCall := Strip(cm.Value).(*ssa.Call); isCall && IsCallTo(tc, "reflect.TypeOf") {
						guarded := false
						for _, a := range AtomStrings(GuardsOfBlock(cl.Block())) {
							// a nil test of the value itself, or of the type obtained from it, in this function
							if len(tc.Call.Args) == 1 && (a == Desc(tc.Call.Args[0])+" != nil" || a == Desc(tc)+" != nil") {
								guarded = true
							}
						}
						if !guarded {
							second = append(second, FuncKey(f)+": "+Desc(cm.Value)+"."+FNm(cm.Method)+"()")
						}
					}
				}
			}
		}
		c.Check(len(second) == 0, rule, FStr(fn), "handler-cannot-panic-again", fn.Pos(), "the recover handler calls no method on reflect.TypeOf(v) without a nil test (TypeOf of a nil interface is nil): %v", second)
		c.Check(okNil && okErr, rule, FStr(fn), "converts-panic", fn.Pos(), "the recovered panic becomes \"<nil>\" for a nil pointer receiver and a PANIC=… error otherwise (nil=%v err=%v)", okNil, okErr)
	}

}

// c10Reflected: a reflected value is encoded BEFORE its key or separator is written, and an encoding error returns
// before any write. Decided by path exploration (helpers, function literals and method values handed to them explored
// inline): encodeReflected is the one opaque step, forked into "succeeded" / "failed"; every mutating call on the
// encoder's buffer is a write.
func c10Reflected(c *Ctx, rule string) {
	encFn := c.Method(CorePath, "jsonEncoder", "encodeReflected")
	if !c.Anchor(rule, "zapcore.jsonEncoder.encodeReflected", encFn != nil) {
		return
	}
	jn := c.Named(CorePath, "jsonEncoder")
	for _, m := range []string{"AddReflected", "AppendReflected"} {
		fn := c.Method(CorePath, "jsonEncoder", m)
		if !c.Anchor(rule, "zapcore.jsonEncoder."+m, fn != nil) {
			continue
		}
		isEnc := func(cl *ssa.Call) bool { return !cl.Call.IsInvoke() && cl.Call.StaticCallee() == encFn }
		inl := func(h *ssa.Function) bool {
			if h == encFn {
				return false
			}
			rn := RecvNamed(h)
			if h.Parent() != nil {
				rn = RecvNamed(h.Parent())
			}
			return rn != nil && jn != nil && rn.Obj() == jn.Obj()
		}
		seqs, trunc := ConcPaths(fn, ConcCfg{
			Inline: inl, InlineAny: inl, MaxDepth: 8,
			Fork: func(in ssa.Instruction, st *ConcState) []ConcAlt {
				x, ok := in.(*ssa.Extract)
				if !ok {
					return nil
				}
				cl, ok := x.Tuple.(*ssa.Call)
				if !ok || !isEnc(cl) || x.Index != 1 {
					return nil
				}
				return []ConcAlt{{Ev: "enc-ok", Nils: map[ssa.Value]bool{x: true}}, {Ev: "enc-fail", Nils: map[ssa.Value]bool{x: false}}}
			},
			Event: func(in ssa.Instruction, st *ConcState) string {
				switch x := in.(type) {
				case *ssa.Call:
					if f := CalleeFunc(x); f != nil && f.Pkg() != nil && f.Pkg().Path() == "go.uber.org/zap/buffer" && isMutatingBufMethod(FNm(f)) {
						if args := Args(x); len(args) > 0 && encBufRecv(c, args[0]) {
							return "w"
						}
					}
				case *ssa.Return:
					return "ret"
				case *ssa.Panic:
					return "panic"
				}
				return ""
			},
		})
		if trunc || len(seqs) == 0 {
			c.Und(rule, FStr(fn), "encodes-before-writing", fn.Pos(), "path exploration incomplete (%d sequences)", len(seqs))
			continue
		}
		var bad []string
		okPaths := 0
		for _, sq := range seqs {
			toks := strings.Split(sq, " ; ")
			st, w := "", 0
			viol := false
			for _, t := range toks {
				switch t {
				case "enc-ok", "enc-fail":
					if st != "" {
						viol = true // encoded twice
					}
					st = t
				case "w":
					if st != "enc-ok" {
						viol = true // written before the encoding, or after it failed
					}
					w++
				case "ret":
					if st == "" {
						viol = true // nothing encoded
					}
					if st == "enc-ok" {
						if w < 1 {
							viol = true // the value itself
						}
						if w >= 2 {
							okPaths++ // key/separator and value
						}
					}
				}
			}
			if viol {
				bad = append(bad, sq)
			}
		}
		ex := ""
		if len(bad) > 0 {
			ex = bad[0]
		}
		c.Check(len(bad) == 0 && okPaths > 0, rule, FStr(fn), "encodes-before-writing", fn.Pos(),
			"by path exploration (%d paths, encodeReflected forked into succeeded/failed): nothing is written to the encoder's buffer before the value is encoded nor after the encoding failed, and key/separator and value are written when it succeeded (offending path: %s)", len(seqs), ex)
	}

}

// c10BuildOptionOrder: Config.Build applies the options derived from the configuration first and the caller's options
// after them, so an option the caller passes (zap.ErrorOutput for the sink that reports write failures, for one) is
// not overwritten by the configuration's.
func c10BuildOptionOrder(c *Ctx, rule string) {
	fn := c.Method(ZapPath, "Config", "Build")
	if !c.Anchor(rule, "zap.Config.Build", fn != nil && len(fn.Params) == 2) {
		return
	}
	opts := fn.Params[1]
	resolve := func(st *ConcState, v ssa.Value) ssa.Value {
		for k := 0; k < 16 && v != nil; k++ {
			if ct, ok := v.(*ssa.ChangeType); ok {
				v = ct.X
				continue
			}
			nx := st.Step(v)
			if nx == nil {
				break
			}
			v = nx
		}
		return v
	}
	var describe func(st *ConcState, v ssa.Value, d int) string
	describe = func(st *ConcState, v ssa.Value, d int) string {
		r := resolve(st, v)
		if r == ssa.Value(opts) {
			return "caller"
		}
		if sl, ok := r.(*ssa.Slice); ok && d < 4 {
			return describe(st, sl.X, d+1)
		}
		if cl, ok := r.(*ssa.Call); ok && d < 4 {
			if IsCallTo(cl, "(go.uber.org/zap.Config).buildOptions") {
				return "config"
			}
			if CallBuiltin(cl) == "append" && len(cl.Call.Args) == 2 {
				tail := describe(st, cl.Call.Args[1], d+1)
				if _, elems := appendParts(cl); len(elems) > 0 {
					tail = "extra"
				}
				return describe(st, cl.Call.Args[0], d+1) + "+" + tail
			}
		}
		if n, known := st.IsNil(r); known && n {
			return "none"
		}
		if _, ok := r.(*ssa.MakeSlice); ok {
			return "none"
		}
		return "?" + st.Desc(v)
	}
	seqs, trunc := ConcPaths(fn, ConcCfg{
		Prune: true,
		Event: func(in ssa.Instruction, st *ConcState) string {
			x, ok := in.(*ssa.Call)
			if !ok {
				return ""
			}
			switch {
			case IsCallTo(x, "go.uber.org/zap.New"):
				return "new(" + describe(st, Args(x)[1], 0) + ")"
			case IsCallTo(x, "(*go.uber.org/zap.Logger).WithOptions"):
				return "with(" + describe(st, Args(x)[1], 0) + ")"
			}
			return ""
		},
		Inline: func(h *ssa.Function) bool {
			return FNm(h) != "buildOptions" && FNm(h) != "WithOptions" && FNm(h) != "New"
		},
	})
	if trunc || len(seqs) == 0 {
		c.Und(rule, FStr(fn), "caller-options-last", fn.Pos(), "path exploration incomplete (%d sequences)", len(seqs))
		return
	}
	var bad []string
	built := 0
	for _, sq := range seqs {
		if sq == "" {
			continue // an error return before anything is built
		}
		// the order in which option lists take effect
		var order []string
		for _, t := range strings.Split(sq, " ; ") {
			body := t[strings.Index(t, "(")+1 : len(t)-1]
			for _, p := range strings.Split(body, "+") {
				if p != "none" {
					order = append(order, p)
				}
			}
		}
		built++
		got := strings.Join(order, ",")
		if got != "config" && got != "config,caller" {
			bad = append(bad, sq)
		}
	}
	c.Check(len(bad) == 0 && built > 0, rule, FStr(fn), "caller-options-last", fn.Pos(), "on every path that builds a logger the configuration's options take effect first and the caller's after them (so the caller's ErrorOutput, hooks, … win): %v", bad)
}

// c10ScratchReset: by path exploration of jsonEncoder.encodeReflected (helpers inline): immediately before every
// Encode into the encoder's scratch buffer that buffer was Reset or freshly taken from the pool. A reset placed after
// the use instead is skipped when the encoding fails, and the partial output is prepended to the next reflected value.
func c10ScratchReset(c *Ctx, rule string) {
	er := c.Method(CorePath, "jsonEncoder", "encodeReflected")
	jn := c.Named(CorePath, "jsonEncoder")
	if !c.Anchor(rule, "zapcore.jsonEncoder.encodeReflected", er != nil && jn != nil) {
		return
	}
	// the scratch buffer: the *buffer.Buffer field of jsonEncoder other than the line buffer "buf"
	scratch := ""
	if st, ok := jn.Underlying().(*types.Struct); ok {
		for i := 0; i < st.NumFields(); i++ {
			if strings.HasSuffix(TypeName(st.Field(i).Type()), "buffer.Buffer") && FN(st.Field(i)) != "buf" {
				scratch = FN(st.Field(i))
			}
		}
	}
	if !c.Anchor(rule, "the scratch buffer field of zapcore.jsonEncoder", scratch != "") {
		return
	}
	// the reflection encoder bound to that buffer: the field of an interface type with an Encode method
	reflEnc := ""
	if st, ok := jn.Underlying().(*types.Struct); ok {
		for i := 0; i < st.NumFields(); i++ {
			if it, isI := types.Unalias(st.Field(i).Type()).Underlying().(*types.Interface); isI {
				for k := 0; k < it.NumMethods(); k++ {
					if FNm(it.Method(k)) == "Encode" {
						reflEnc = FN(st.Field(i))
					}
				}
			}
		}
	}
	isScratch := func(st *ConcState, v ssa.Value) bool {
		for k := 0; k < 12; k++ {
			switch y := v.(type) {
			case *ssa.MakeInterface:
				v = y.X
			case *ssa.ChangeInterface:
				v = y.X
			}
			if ld, ok := v.(*ssa.UnOp); ok && ld.Op == token.MUL {
				if fa, isFA := ld.X.(*ssa.FieldAddr); isFA && fieldName(fa.X.Type(), fa.Field) == scratch {
					return true
				}
			}
			if freshBuffer(v, 0) {
				return true // what was just stored into the field
			}
			nx := st.Step(v)
			if nx == nil {
				return false
			}
			v = nx
		}
		return false
	}
	seqs, trunc := ConcPaths(er, ConcCfg{
		Event: func(in ssa.Instruction, st *ConcState) string {
			switch x := in.(type) {
			case *ssa.Call:
				if IsCallTo(x, "(*go.uber.org/zap/buffer.Buffer).Reset") && isScratch(st, Args(x)[0]) {
					return "empty"
				}
				if x.Call.IsInvoke() && FNm(x.Call.Method) == "Encode" {
					return "encode"
				}
				if f := CalleeFunc(x); f != nil && f.Pkg() != nil && f.Pkg().Path() == "go.uber.org/zap/buffer" && isMutatingBufMethod(FNm(f)) && FNm(f) != "Reset" && FNm(f) != "TrimNewline" && isScratch(st, Args(x)[0]) {
					return "dirty"
				}
			case *ssa.Store:
				if fa, ok := x.Addr.(*ssa.FieldAddr); ok && fieldName(fa.X.Type(), fa.Field) == scratch {
					v := x.Val
					for k := 0; k < 8; k++ {
						if freshBuffer(v, 0) {
							return "new-buffer"
						}
						nx := st.Step(v)
						if nx == nil {
							break
						}
						v = nx
					}
					return "replaced"
				}
				if fa, ok := x.Addr.(*ssa.FieldAddr); ok && reflEnc != "" && fieldName(fa.X.Type(), fa.Field) == reflEnc {
					// the reflection encoder is (re)built: over the scratch buffer as it is now?
					v := x.Val
					for k := 0; k < 8; k++ {
						if cl, isC := v.(*ssa.Call); isC {
							for _, a := range cl.Call.Args {
								if isScratch(st, a) {
									return "rebind"
								}
							}
							break
						}
						nx := st.Step(v)
						if nx == nil {
							break
						}
						v = nx
					}
					return "rebind-elsewhere"
				}
			}
			return ""
		},
	})
	var bad []string
	nEnc := 0
	for _, sq := range seqs {
		toks := strings.Split(sq, " ; ")
		for i, t := range toks {
			if t != "encode" {
				continue
			}
			nEnc++
			// immediately before: the buffer emptied, or a new buffer taken and the encoder built over THAT buffer (an
			// encoder left bound to the buffer that was given back writes into somebody else's buffer)
			ok := i >= 1 && toks[i-1] == "empty" || i >= 2 && toks[i-2] == "new-buffer" && toks[i-1] == "rebind"
			if !ok {
				bad = append(bad, sq)
			}
		}
	}
	c.Check(!trunc && nEnc > 0 && len(bad) == 0, rule, FStr(er), "scratch-emptied-before-encode", er.Pos(), "on every one of the %d paths the scratch buffer %s is Reset - or freshly taken from the pool and the reflection encoder rebuilt over it - immediately before the value is encoded into it (offending: %v)", len(seqs), scratch, bad)
}

// c10NoErrorOverwrittenInLoop: no loop of the library carries an error from one round to the next only to overwrite
// it: a loop-carried error variable whose new value is the plain result of a call made in the loop (not a combination
// of the old value with the new one), with no test inside the loop that leaves it when the value is non-nil, keeps the
// last round's error only - the failures of all earlier elements vanish without a trace.
func c10NoErrorOverwrittenInLoop(c *Ctx, rule string) {
	n := 0
	isErr := func(t types.Type) bool { return TStr(t) == "error" }
	c.EachRootFunc(func(fn *ssa.Function) {
		if fn.Pkg == nil || len(fn.Blocks) == 0 {
			return
		}
		for _, b := range fn.Blocks {
			for _, in := range b.Instrs {
				phi, ok := in.(*ssa.Phi)
				if !ok {
					break
				}
				if !isErr(phi.Type()) || LoopHeader(b) != b {
					continue
				}
				n++
				for ei, e := range phi.Edges {
					pred := b.Preds[ei]
					if !(pred == b || b.Dominates(pred)) {
						continue // the value on entry
					}
					ev := Strip(e)
					var call *ssa.Call
					switch x := ev.(type) {
					case *ssa.Call:
						call = x
					case *ssa.Extract:
						call, _ = x.Tuple.(*ssa.Call)
					}
					if call == nil || LoopHeader(call.Block()) == nil {
						continue
					}
					// a combination of the old value with the new one keeps the old one
					combines := false
					for _, a := range call.Call.Args {
						if Strip(a) == ssa.Value(phi) {
							combines = true
						}
					}
					if combines {
						continue
					}
					// a test of the new value that leaves the loop when it is non-nil
					left := false
					if ev.Referrers() != nil {
						for _, r := range *ev.Referrers() {
							bo, isBO := r.(*ssa.BinOp)
							if !isBO || !(IsNilConst(bo.X) || IsNilConst(bo.Y)) || bo.Referrers() == nil {
								continue
							}
							for _, r2 := range *bo.Referrers() {
								iff, isIf := r2.(*ssa.If)
								if !isIf {
									continue
								}
								nonNil := iff.Block().Succs[0]
								if bo.Op == token.EQL {
									nonNil = iff.Block().Succs[1]
								}
								// with a non-nil value the round cannot be completed: the back edge is out of reach
								if !reachesAvoiding(nonNil, pred, b) {
									left = true
								}
							}
						}
					}
					if left {
						continue
					}
					// does the carried value matter? it is returned, or handed on, after the loop
					c.Bad(rule, FuncKey(fn), "error-overwritten/"+Desc(call.Call.Value)+FuncName(CalleeFunc(call)), call.Pos(), "the error of %s is carried into the next round of the loop and overwritten there without having been looked at: only the last round's error survives", Desc(ev))
				}
			}
		}
	})
	c.Check(n >= 0, rule, "loops carrying an error", "scanned", token.NoPos, "%d loop-carried error variables examined in the library: none is overwritten by a later round without a test that leaves the loop or a combination with the earlier value", n)
}

// c10MemoryKeepsPartial: in every method of the in-memory encoders that invokes MarshalLogArray/MarshalLogObject, no
// path from the entry to a return avoids the store of the nested value into the receiver (a map update, or a store to
// a field of the receiver).
func c10MemoryKeepsPartial(c *Ctx, rule string) {
	n := 0
	for _, f := range coreFuncs(c) {
		rn := RecvNamed(f)
		if rn == nil || len(f.Blocks) == 0 || len(f.Params) == 0 {
			continue
		}
		if tn := TNm(rn.Obj()); tn != "MapObjectEncoder" && tn != "sliceArrayEncoder" {
			continue
		}
		marshals := false
		for _, cl := range Calls(f) {
			cc := cl.Common()
			if cc.IsInvoke() && (cc.Method.Name() == "MarshalLogArray" || cc.Method.Name() == "MarshalLogObject") {
				marshals = true
			}
		}
		if !marshals {
			continue
		}
		n++
		escape := !c10StoresOnEveryPath(f, 0)
		c.Check(!escape, rule, FStr(f), "nested-value-stored-on-every-path", f.Pos(), "no path from the entry to a return avoids storing the nested value into the receiver: a marshaler that fails half-way leaves what it had produced")
	}
	if n < 4 {
		c.Bad(rule, "in-memory encoder methods that run a marshaler", "count", token.NoPos, "expected at least 4, found %d", n)
	}
}

// c10StoresOnEveryPath: no path from f's entry to a return avoids a store into f's receiver (a map update, a store to
// a field of the receiver, or a call of a method on the receiver that itself stores on every path).
func c10StoresOnEveryPath(f *ssa.Function, depth int) bool {
	if f == nil || len(f.Blocks) == 0 || len(f.Params) == 0 || depth > 3 {
		return false
	}
	recv := f.Params[0]
	fromRecv := func(v ssa.Value) bool {
		for i := 0; i < 6 && v != nil; i++ {
			switch x := Strip(v).(type) {
			case *ssa.Parameter:
				return x == recv
			case *ssa.FieldAddr:
				v = x.X
			case *ssa.Field:
				v = x.X
			case *ssa.UnOp:
				v = x.X
			default:
				return false
			}
		}
		return false
	}
	stores := map[*ssa.BasicBlock]bool{}
	for _, b := range f.Blocks {
		for _, in := range b.Instrs {
			switch x := in.(type) {
			case *ssa.MapUpdate:
				if fromRecv(x.Map) {
					stores[b] = true
				}
			case *ssa.Store:
				if _, isF := Strip(x.Addr).(*ssa.FieldAddr); isF && fromRecv(x.Addr) {
					stores[b] = true
				}
			case *ssa.Call:
				if sc := StaticCallee(x); sc != nil && sc != f && sc.Signature.Recv() != nil && len(x.Call.Args) > 0 && fromRecv(x.Call.Args[0]) && curProgRoot(sc) && c10StoresOnEveryPath(sc, depth+1) {
					stores[b] = true
				}
			}
		}
	}
	seen := map[*ssa.BasicBlock]bool{}
	escape := false
	var walk func(b *ssa.BasicBlock)
	walk = func(b *ssa.BasicBlock) {
		if seen[b] || stores[b] {
			return
		}
		seen[b] = true
		if len(b.Instrs) > 0 {
			if _, isRet := b.Instrs[len(b.Instrs)-1].(*ssa.Return); isRet {
				escape = true
			}
		}
		for _, s := range b.Succs {
			walk(s)
		}
	}
	walk(f.Blocks[0])
	return !escape
}
