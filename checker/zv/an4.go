package zv

import (
	"go/token"
	"go/types"
	"sort"
	"strings"
	"unicode"

	"golang.org/x/tools/go/ssa"
)

// ---------------------------------------------------------------------------
// Interprocedural layer: unexported helpers are analysed "as if inlined".
//
// Refactorings routinely extract or inline small helpers. To keep every rule
// independent of where the code sits, the basic queries see through static
// calls to ELIGIBLE helpers (unexported functions/methods and immediately
// invoked or deferred closures of the analysed packages):
//   * Guards(i)      own control conditions ∪ the conditions common to all call sites of i's function
//   * Desc(param)    the caller's argument expression when all call sites agree
//   * Desc(call)     the callee's return expression when it is a pure projection of its parameters
//   * boolean helpers in branch conditions are expanded into the atoms they test
//   * ExistsPath     a call "passes" a target/avoid instruction located inside the callee
//   * Dominates      across a helper boundary
//   * CallsDeep      call sites of a function including those moved into helpers

var curProg *Program

func (p *Program) isRootFn(f *ssa.Function) bool {
	if f == nil {
		return false
	}
	for f.Parent() != nil {
		f = f.Parent()
	}
	if f.Pkg == nil {
		// instantiations of generics have no Pkg; use the origin
		if o := f.Origin(); o != nil && o.Pkg != nil {
			return strings.HasPrefix(o.Pkg.Pkg.Path(), ZapPath)
		}
		return false
	}
	return strings.HasPrefix(f.Pkg.Pkg.Path(), ZapPath)
}

// buildSites indexes the static call sites of every root function.
func (p *Program) buildSites() {
	p.sites = map[*ssa.Function][]ssa.CallInstruction{}
	for _, fn := range p.RootFuncs() {
		for _, cl := range Calls(fn) {
			if _, isGo := cl.(*ssa.Go); isGo {
				continue
			}
			if callee := cl.Common().StaticCallee(); callee != nil {
				p.sites[callee] = append(p.sites[callee], cl)
				continue
			}
			// immediately invoked / deferred closure
			if mk, ok := cl.Common().Value.(*ssa.MakeClosure); ok {
				if f, ok := mk.Fn.(*ssa.Function); ok {
					p.sites[f] = append(p.sites[f], cl)
				}
			}
		}
	}
}

// Eligible: a helper that is analysed as if inlined at its call sites.
func Eligible(f *ssa.Function) bool {
	p := curProg
	if p == nil || f == nil || len(f.Blocks) == 0 || !p.isRootFn(f) {
		return false
	}
	if p.sites == nil {
		p.buildSites()
	}
	if len(p.sites[f]) == 0 {
		return false
	}
	if f.Parent() != nil {
		// closure: only when every use is a direct call/defer (never stored or passed on)
		return closureOnlyCalled(f)
	}
	name := FNm(f)
	r := []rune(name)
	if len(r) == 0 || unicode.IsUpper(r[0]) {
		return false
	}
	if f.Synthetic != "" {
		return false
	}
	return true
}

// loopHelperOf: helperOf, or - for the rules that look for a loop in a helper - the instance of an unexported generic
// function of the module the instruction calls.
func loopHelperOf(i ssa.Instruction) *ssa.Function {
	if h := helperOf(i); h != nil {
		return h
	}
	cl, ok := i.(*ssa.Call)
	if !ok {
		return nil
	}
	f := cl.Call.StaticCallee()
	if f != nil && strings.HasPrefix(f.Synthetic, "instantiation wrapper of ") && f.Origin() != nil {
		// called from a generic body: the wrapper only forwards to the generic function itself
		f = f.Origin()
		if len(f.Blocks) == 0 || curProg == nil || !curProg.isRootFn(f) || f.Signature.Recv() != nil {
			return nil
		}
		if r := []rune(FNm(f)); len(r) == 0 || unicode.IsUpper(r[0]) {
			return nil
		}
		return f
	}
	if f == nil || len(f.Blocks) == 0 || !strings.HasPrefix(f.Synthetic, "instance of ") || curProg == nil || !curProg.isRootFn(f) || f.Signature.Recv() != nil {
		return nil
	}
	if r := []rune(FNm(f)); len(r) == 0 || unicode.IsUpper(r[0]) {
		return nil
	}
	return f
}

func closureOnlyCalled(f *ssa.Function) bool {
	par := f.Parent()
	ok := true
	AllInstrs(par, func(i ssa.Instruction) {
		mk, isMk := i.(*ssa.MakeClosure)
		if !isMk || mk.Fn != ssa.Value(f) || mk.Referrers() == nil {
			return
		}
		for _, r := range *mk.Referrers() {
			switch x := r.(type) {
			case *ssa.Call:
				if x.Call.Value != ssa.Value(mk) {
					ok = false
				}
			case *ssa.Defer:
				if x.Call.Value != ssa.Value(mk) {
					ok = false
				}
			case *ssa.DebugRef:
			default:
				ok = false
			}
		}
	})
	return ok
}

func sitesOf(f *ssa.Function) []ssa.CallInstruction {
	if curProg == nil {
		return nil
	}
	if curProg.sites == nil {
		curProg.buildSites()
	}
	return curProg.sites[f]
}

// ---------------------------------------------------------------------------
// parameter binding and call-result projection for Desc

var descEnv []map[*ssa.Parameter]string
var bindingBusy = map[*ssa.Parameter]bool{}

// bindParams: when set, a parameter of an eligible helper is rendered as the
// argument expression its call sites pass (if they all agree). Off by
// default; rules that compare conditions across a possible helper boundary
// opt in with Bound.
var bindParams bool

// Bound runs f with helper parameters rendered in their callers' terms.
func Bound(f func()) {
	old := bindParams
	bindParams = true
	defer func() { bindParams = old }()
	f()
}

func paramDesc(p *ssa.Parameter, depth int) string {
	for k := len(descEnv) - 1; k >= 0; k-- {
		if s, ok := descEnv[k][p]; ok {
			return s
		}
	}
	f := p.Parent()
	if !bindParams || depth > 8 || bindingBusy[p] || !Eligible(f) {
		return PN(p)
	}
	idx := -1
	for i, q := range f.Params {
		if q == p {
			idx = i
		}
	}
	if idx < 0 {
		return PN(p)
	}
	bindingBusy[p] = true
	defer delete(bindingBusy, p)
	var common string
	for k, s := range sitesOf(f) {
		args := s.Common().Args
		if idx >= len(args) {
			return PN(p)
		}
		d := desc(args[idx], depth+2)
		if k == 0 {
			common = d
		} else if d != common {
			return PN(p)
		}
	}
	if common == "" {
		return PN(p)
	}
	return common
}

// pureProjection: v is built only from parameters, constants, field/index
// selections, conversions and arithmetic/comparison — no calls, allocations or phis.
func pureProjection(v ssa.Value, depth int) bool {
	if depth > 10 {
		return false
	}
	switch x := v.(type) {
	case *ssa.Parameter, *ssa.Const, *ssa.Global, *ssa.FreeVar:
		return true
	case *ssa.FieldAddr:
		return pureProjection(x.X, depth+1)
	case *ssa.Field:
		return pureProjection(x.X, depth+1)
	case *ssa.IndexAddr:
		return pureProjection(x.X, depth+1) && pureProjection(x.Index, depth+1)
	case *ssa.UnOp:
		return pureProjection(x.X, depth+1)
	case *ssa.BinOp:
		return pureProjection(x.X, depth+1) && pureProjection(x.Y, depth+1)
	case *ssa.Convert:
		return pureProjection(x.X, depth+1)
	case *ssa.ChangeType:
		return pureProjection(x.X, depth+1)
	case *ssa.MakeInterface:
		return pureProjection(x.X, depth+1)
	case *ssa.Call:
		// a call of a side-effect-free function of the analysed packages on pure arguments
		callee := x.Call.StaticCallee()
		if callee == nil || !curProgRoot(callee) || !sideEffectFree(callee, 0) {
			return false
		}
		for _, a := range x.Call.Args {
			if !pureProjection(a, depth+1) {
				return false
			}
		}
		return true
	case *ssa.Slice:
		ok := pureProjection(x.X, depth+1)
		for _, y := range []ssa.Value{x.Low, x.High, x.Max} {
			if y != nil {
				ok = ok && pureProjection(y, depth+1)
			}
		}
		return ok
	}
	return false
}

// callProjection renders a call to an eligible helper whose single return
// value is a pure projection of its parameters as that projection.
func callProjection(c *ssa.Call, depth int) (string, bool) {
	callee := c.Call.StaticCallee()
	if callee == nil || depth > 8 || !Eligible(callee) || callee.Signature.Results().Len() != 1 {
		return "", false
	}
	rets := Returns(callee)
	if len(rets) != 1 {
		return "", false
	}
	rv := RetVals(rets[0])[0]
	if !pureProjection(rv, 0) {
		return "", false
	}
	if _, isConst := rv.(*ssa.Const); isConst {
		return "", false
	}
	env := map[*ssa.Parameter]string{}
	for i, a := range c.Call.Args {
		if i < len(callee.Params) {
			env[callee.Params[i]] = desc(a, depth+2)
		}
	}
	descEnv = append(descEnv, env)
	s := desc(rv, depth+2)
	descEnv = descEnv[:len(descEnv)-1]
	return s, true
}

// ---------------------------------------------------------------------------
// boolean helper expansion

// boolDNF returns the conditions (DNF over atom strings, in the CALLER's
// terms) under which the call returns `want`.
func boolDNF(c *ssa.Call, want bool, depth int) ([][]string, bool) {
	return boolDNFIdx(c, 0, want, depth)
}

// boolDNFIdx: conditions under which result #idx (a bool) of the call is `want`.
func boolDNFIdx(c *ssa.Call, idx int, want bool, depth int) ([][]string, bool) {
	return boolDNFOf(c.Call.StaticCallee(), c.Call.Args, idx, want, depth)
}

// boolDNFOf: the conditions, in the terms of the given arguments, under which result #idx of callee equals want.
func boolDNFOf(callee *ssa.Function, args []ssa.Value, idx int, want bool, depth int) ([][]string, bool) {
	if callee == nil || depth > 3 || !(curProgRoot(callee) || callee.Parent() != nil) || len(callee.Blocks) == 0 {
		return nil, false
	}
	if idx >= callee.Signature.Results().Len() {
		return nil, false
	}
	if b, ok := callee.Signature.Results().At(idx).Type().Underlying().(*types.Basic); !ok || b.Kind() != types.Bool {
		return nil, false
	}
	if !sideEffectFree(callee, 0) {
		return nil, false
	}
	env := map[*ssa.Parameter]string{}
	for i, a := range args {
		if i < len(callee.Params) {
			env[callee.Params[i]] = Desc(a)
		}
	}
	descEnv = append(descEnv, env)
	defer func() { descEnv = descEnv[:len(descEnv)-1] }()
	var out [][]string
	var addVal func(v ssa.Value, conds [][]string, d int)
	addVal = func(v ssa.Value, conds [][]string, d int) {
		switch x := v.(type) {
		case *ssa.Const:
			if x.Value != nil && (x.Value.ExactString() == "true") == want {
				out = append(out, conds...)
			}
			return
		case *ssa.Phi:
			if d < 4 {
				for j, e := range x.Edges {
					pred := x.Block().Preds[j]
					var edge []string
					if iff, ok := pred.Instrs[len(pred.Instrs)-1].(*ssa.If); ok && pred.Succs[0] != pred.Succs[1] {
						edge = expandAtomConj(Atom{iff.Cond, pred.Succs[0] == x.Block()}, depth+1)
					}
					var cs [][]string
					for _, conj := range pathCondsNoCtx(pred) {
						cs = append(cs, uniqSorted(append(append([]string{}, conj...), edge...)))
					}
					addVal(e, cs, d+1)
				}
				return
			}
		}
		// general boolean expression
		extra := expandAtomConj(Atom{v, want}, depth+1)
		for _, conj := range conds {
			out = append(out, uniqSorted(append(append([]string{}, conj...), extra...)))
		}
	}
	for _, r := range Returns(callee) {
		addVal(RetVals(r)[idx], pathCondsNoCtx(r.Block()), 0)
	}
	if len(out) == 0 || len(out) > 16 {
		return nil, false
	}
	return out, true
}

// phiDNF: conditions under which a short-circuit boolean (the φ of an && / ||
// used as a value) equals want.
func phiDNF(ph *ssa.Phi, want bool, depth int) ([][]string, bool) {
	if depth > 3 || ph.Comment != "&&" && ph.Comment != "||" {
		return nil, false
	}
	var out [][]string
	for j, e := range ph.Edges {
		pred := ph.Block().Preds[j]
		var edge []string
		if iff, ok := pred.Instrs[len(pred.Instrs)-1].(*ssa.If); ok && pred.Succs[0] != pred.Succs[1] {
			edge = expandAtomConj(Atom{iff.Cond, pred.Succs[0] == ph.Block()}, depth+1)
		}
		var val [][]string
		if k, ok := e.(*ssa.Const); ok && k.Value != nil {
			if (k.Value.ExactString() == "true") != want {
				continue
			}
			val = [][]string{{}}
		} else {
			val = expandAtomDNF(Atom{e, want}, depth+1)
		}
		for _, conj := range pathCondsFrom(pred, ph.Block().Idom()) {
			for _, vc := range val {
				out = append(out, uniqSorted(append(append(append([]string{}, conj...), edge...), vc...)))
			}
		}
	}
	if len(out) == 0 || len(out) > 16 {
		return nil, false
	}
	return out, true
}

// nilTest: v compares result #idx of a call with nil; eq tells whether it is an == test.
func nilTest(v ssa.Value) (call *ssa.Call, idx int, eq bool, ok bool) {
	bo, isBo := v.(*ssa.BinOp)
	if !isBo || bo.Op != token.EQL && bo.Op != token.NEQ {
		return
	}
	x, y := bo.X, bo.Y
	if IsNilConst(x) {
		x, y = y, x
	}
	if !IsNilConst(y) {
		return
	}
	if ex, isEx := x.(*ssa.Extract); isEx {
		call, _ = ex.Tuple.(*ssa.Call)
		idx = ex.Index
	} else {
		call, _ = x.(*ssa.Call)
	}
	return call, idx, bo.Op == token.EQL, call != nil
}

// nilDNFIdx: conditions (in the caller's terms) under which result #idx of a
// call to a side-effect-free helper is nil (wantNil) / non-nil. Fails when
// some return value's nil-ness is not evident.
func nilDNFIdx(c *ssa.Call, idx int, wantNil bool, depth int) ([][]string, bool) {
	callee := c.Call.StaticCallee()
	if callee == nil || depth > 3 || !curProgRoot(callee) || len(callee.Blocks) == 0 || !Eligible(callee) {
		return nil, false
	}
	if idx >= callee.Signature.Results().Len() {
		return nil, false
	}
	switch callee.Signature.Results().At(idx).Type().Underlying().(type) {
	case *types.Interface, *types.Pointer:
	default:
		return nil, false
	}
	if !sideEffectFree(callee, 0) {
		return nil, false
	}
	env := map[*ssa.Parameter]string{}
	for i, a := range c.Call.Args {
		if i < len(callee.Params) {
			env[callee.Params[i]] = Desc(a)
		}
	}
	descEnv = append(descEnv, env)
	defer func() { descEnv = descEnv[:len(descEnv)-1] }()
	var out [][]string
	fail := false
	var addVal func(v ssa.Value, conds [][]string, d int)
	addVal = func(v ssa.Value, conds [][]string, d int) {
		switch x := v.(type) {
		case *ssa.Const:
			if x.Value == nil {
				if wantNil {
					out = append(out, conds...)
				}
				return
			}
		case *ssa.MakeInterface, *ssa.Alloc:
			if !wantNil {
				out = append(out, conds...)
			}
			return
		case *ssa.Call:
			if IsCallTo(x, "fmt.Errorf") || IsCallTo(x, "errors.New") {
				if !wantNil {
					out = append(out, conds...)
				}
				return
			}
		case *ssa.Phi:
			if d < 4 {
				for j, e := range x.Edges {
					pred := x.Block().Preds[j]
					var edge []string
					if iff, ok := pred.Instrs[len(pred.Instrs)-1].(*ssa.If); ok && pred.Succs[0] != pred.Succs[1] {
						edge = expandAtomConj(Atom{iff.Cond, pred.Succs[0] == x.Block()}, depth+1)
					}
					var cs [][]string
					for _, conj := range pathCondsNoCtx(pred) {
						cs = append(cs, uniqSorted(append(append([]string{}, conj...), edge...)))
					}
					addVal(e, cs, d+1)
				}
				return
			}
		}
		fail = true
	}
	for _, r := range Returns(callee) {
		addVal(RetVals(r)[idx], pathCondsNoCtx(r.Block()), 0)
	}
	if fail || len(out) == 0 || len(out) > 16 {
		return nil, false
	}
	return out, true
}

func curProgRoot(f *ssa.Function) bool { return curProg != nil && curProg.isRootFn(f) }

func uniqSorted(s []string) []string {
	sort.Strings(s)
	var out []string
	for i, x := range s {
		if i == 0 || x != s[i-1] {
			out = append(out, x)
		}
	}
	return out
}

// sideEffectFree: no stores, no sends, and only calls to side-effect-free root functions / well-known pure std functions / interface "getter" methods.
func sideEffectFree(f *ssa.Function, depth int) bool {
	if depth > 3 {
		return false
	}
	ok := true
	AllInstrs(f, func(i ssa.Instruction) {
		switch x := i.(type) {
		case *ssa.Store:
			if _, local := Root(x.Addr).(*ssa.Alloc); !local {
				ok = false
			}
		case *ssa.Send, *ssa.Go, *ssa.Defer, *ssa.MapUpdate, *ssa.Panic:
			ok = false
		case *ssa.Call:
			if b := CallBuiltin(x); b != "" {
				if b != "len" && b != "cap" && b != "min" && b != "max" {
					ok = false
				}
				return
			}
			callee := x.Call.StaticCallee()
			if callee != nil && curProgRoot(callee) {
				if !sideEffectFree(callee, depth+1) {
					ok = false
				}
				return
			}
			// functions of value-only std packages have no effect on zap's state
			if f := CalleeFunc(x); f != nil && f.Pkg() != nil {
				switch f.Pkg().Path() {
				case "time", "strings", "bytes", "math", "strconv", "unicode", "unicode/utf8", "errors", "reflect", "math/bits":
					return
				case "fmt":
					if strings.HasPrefix(FNm(f), "Sprint") || FNm(f) == "Errorf" {
						return
					}
				}
			}
			// dynamic or std calls: accept query-like methods by name
			name := ""
			if x.Call.IsInvoke() {
				name = FNm(x.Call.Method)
			} else if f := CalleeFunc(x); f != nil {
				name = FNm(f)
			}
			switch name {
			case "Enabled", "Len", "Available", "Buffered", "Size", "Before", "After", "IsZero", "Kind", "Equal", "IndexByte", "Level", "Load", "Hostname", "Port", "Cap":
			default:
				ok = false
			}
		}
	})
	return ok
}

// expandAtomConj renders an atom; a boolean helper that returns `pol` under a
// single conjunction is replaced by that conjunction.
func expandAtomConj(a Atom, depth int) []string {
	v, pol := a.Cond, a.Pol
	for {
		if u, ok := v.(*ssa.UnOp); ok && u.Op == token.NOT {
			v, pol = u.X, !pol
			continue
		}
		break
	}
	if call, fi, isF := structFieldOfCall(v); isF {
		// a flag of a struct of decisions a side-effect-free helper returned (want := c.columnsOf(ent); if want.time):
		// it stands for what the helper stores into that field, in the caller's terms
		if conj, ok := fieldBoolConj(call, fi, pol, depth); ok {
			return conj
		}
	}
	if ph, isPhi := v.(*ssa.Phi); isPhi {
		if dnf, ok := phiDNF(ph, pol, depth); ok {
			if len(dnf) == 1 {
				return dnf[0]
			}
			var parts []string
			for _, conj := range dnf {
				parts = append(parts, strings.Join(conj, " ∧ "))
			}
			sort.Strings(parts)
			return []string{"(" + strings.Join(parts, " ∨ ") + ")"}
		}
	}
	if nc, nidx, eq, isNil := nilTest(v); isNil {
		// the test itself stays visible next to what it stands for
		self := atomStringRaw(Atom{v, pol})
		if dnf, ok := nilDNFIdx(nc, nidx, eq == pol, depth); ok {
			if len(dnf) == 1 {
				return append([]string{self}, dnf[0]...)
			}
			var parts []string
			for _, conj := range dnf {
				parts = append(parts, strings.Join(conj, " ∧ "))
			}
			sort.Strings(parts)
			return []string{self, "(" + strings.Join(parts, " ∨ ") + ")"}
		}
	}
	call, isCall := v.(*ssa.Call)
	idx := 0
	if ex, isEx := v.(*ssa.Extract); isEx {
		call, isCall = ex.Tuple.(*ssa.Call)
		idx = ex.Index
	}
	if isCall {
		if dnf, ok := boolDNFIdx(call, idx, pol, depth); ok {
			if len(dnf) == 1 {
				return dnf[0]
			}
			var parts []string
			for _, conj := range dnf {
				parts = append(parts, strings.Join(conj, " ∧ "))
			}
			sort.Strings(parts)
			return []string{"(" + strings.Join(parts, " ∨ ") + ")"}
		}
	}
	return []string{atomStringRaw(Atom{v, pol})}
}

// expandAtomDNF is like expandAtomConj but keeps alternatives apart.
func expandAtomDNF(a Atom, depth int) [][]string {
	v, pol := a.Cond, a.Pol
	for {
		if u, ok := v.(*ssa.UnOp); ok && u.Op == token.NOT {
			v, pol = u.X, !pol
			continue
		}
		break
	}
	call, isCall := v.(*ssa.Call)
	idx := 0
	if ex, isEx := v.(*ssa.Extract); isEx {
		call, isCall = ex.Tuple.(*ssa.Call)
		idx = ex.Index
	}
	if ph, isPhi := v.(*ssa.Phi); isPhi {
		if dnf, ok := phiDNF(ph, pol, depth); ok {
			return dnf
		}
	}
	if nc, nidx, eq, isNil := nilTest(v); isNil {
		if dnf, ok := nilDNFIdx(nc, nidx, eq == pol, depth); ok {
			self := atomStringRaw(Atom{v, pol})
			var out [][]string
			for _, conj := range dnf {
				out = append(out, append([]string{self}, conj...))
			}
			return out
		}
	}
	if isCall {
		if dnf, ok := boolDNFIdx(call, idx, pol, depth); ok {
			return dnf
		}
	}
	return [][]string{{atomStringRaw(Atom{v, pol})}}
}

// ---------------------------------------------------------------------------
// deep path predicates

type deepQ struct {
	target, avoid func(ssa.Instruction) bool
	mayMemo       map[*ssa.Function]int // 0 unknown, 1 yes, 2 no, 3 in progress
	passMemo      map[*ssa.Function]int
	blockMemo     map[*ssa.Function]int
}

// helperOf returns the eligible helper called by i (static call or invoked closure), or nil.
func helperOf(i ssa.Instruction) *ssa.Function {
	cl, ok := i.(ssa.CallInstruction)
	if !ok {
		return nil
	}
	if _, isGo := cl.(*ssa.Go); isGo {
		return nil
	}
	if _, isDefer := cl.(*ssa.Defer); isDefer {
		return nil
	}
	f := cl.Common().StaticCallee()
	if f == nil {
		if mk, ok := cl.Common().Value.(*ssa.MakeClosure); ok {
			f, _ = mk.Fn.(*ssa.Function)
		}
	}
	if f != nil && Eligible(f) {
		return f
	}
	return nil
}

// mayReachInside: some path from H's entry reaches a target (deep) without first hitting avoid (deep).
func (q *deepQ) mayReachInside(h *ssa.Function) bool {
	switch q.mayMemo[h] {
	case 1:
		return true
	case 2, 3:
		return false
	}
	q.mayMemo[h] = 3
	// a return/panic inside the helper is not an exit of the function under analysis
	inner := func(i ssa.Instruction) bool {
		switch i.(type) {
		case *ssa.Return, *ssa.Panic:
			return false
		}
		return q.deepTarget(i)
	}
	r := witnessPathRaw(h, nil, inner, q.deepAvoid) != nil
	if r {
		q.mayMemo[h] = 1
	} else {
		q.mayMemo[h] = 2
	}
	return r
}

// blocksAll: every path through H (entry → return) hits avoid (deep).
func (q *deepQ) blocksAll(h *ssa.Function) bool {
	switch q.blockMemo[h] {
	case 1:
		return true
	case 2, 3:
		return false
	}
	q.blockMemo[h] = 3
	r := q.avoid != nil && witnessPathRaw(h, nil, IsReturn, q.deepAvoid) == nil
	if r {
		q.blockMemo[h] = 1
	} else {
		q.blockMemo[h] = 2
	}
	return r
}

func (q *deepQ) deepTarget(i ssa.Instruction) bool {
	if q.target(i) {
		return true
	}
	if h := helperOf(i); h != nil {
		return q.mayReachInside(h)
	}
	return false
}

func (q *deepQ) deepAvoid(i ssa.Instruction) bool {
	if q.avoid != nil && q.avoid(i) {
		return true
	}
	if q.avoid == nil {
		return false
	}
	if h := helperOf(i); h != nil {
		return q.blocksAll(h)
	}
	return false
}

// ---------------------------------------------------------------------------
// deep call enumeration

// CallsDeep lists the call instructions of fn, of its closures, and of the
// eligible helpers it (transitively) calls.
func CallsDeep(fn *ssa.Function) []ssa.CallInstruction {
	var out []ssa.CallInstruction
	seen := map[*ssa.Function]bool{}
	var rec func(f *ssa.Function, depth int)
	rec = func(f *ssa.Function, depth int) {
		if f == nil || seen[f] || depth > 4 {
			return
		}
		seen[f] = true
		for _, cl := range Calls(f) {
			out = append(out, cl)
			if h := helperOf(cl); h != nil {
				rec(h, depth+1)
			} else if d, ok := cl.(*ssa.Defer); ok {
				if mk, ok := d.Call.Value.(*ssa.MakeClosure); ok {
					if g, ok := mk.Fn.(*ssa.Function); ok && Eligible(g) {
						rec(g, depth+1)
					}
				} else if g := d.Call.StaticCallee(); g != nil && Eligible(g) {
					rec(g, depth+1)
				}
			}
		}
	}
	rec(fn, 0)
	return out
}

// InstrsDeep visits the instructions of fn and of the eligible helpers it calls.
func InstrsDeep(fn *ssa.Function, visit func(ssa.Instruction)) {
	seen := map[*ssa.Function]bool{}
	var rec func(f *ssa.Function, depth int)
	rec = func(f *ssa.Function, depth int) {
		if f == nil || seen[f] || depth > 4 {
			return
		}
		seen[f] = true
		AllInstrs(f, func(i ssa.Instruction) {
			visit(i)
			if h := helperOf(i); h != nil {
				rec(h, depth+1)
			} else if d, ok := i.(*ssa.Defer); ok {
				if mk, ok := d.Call.Value.(*ssa.MakeClosure); ok {
					if g, ok := mk.Fn.(*ssa.Function); ok && Eligible(g) {
						rec(g, depth+1)
					}
				}
			}
		})
	}
	rec(fn, 0)
}

// Region returns fn plus the eligible helpers it transitively calls.
func Region(fn *ssa.Function) []*ssa.Function {
	seen := map[*ssa.Function]bool{}
	var out []*ssa.Function
	var rec func(f *ssa.Function, depth int)
	rec = func(f *ssa.Function, depth int) {
		if f == nil || seen[f] || depth > 4 {
			return
		}
		seen[f] = true
		out = append(out, f)
		for _, cl := range Calls(f) {
			if h := helperOf(cl); h != nil {
				rec(h, depth+1)
			} else if d, ok := cl.(*ssa.Defer); ok {
				if mk, ok := d.Call.Value.(*ssa.MakeClosure); ok {
					if g, ok := mk.Fn.(*ssa.Function); ok && Eligible(g) {
						rec(g, depth+1)
					}
				}
			}
		}
	}
	rec(fn, 0)
	return out
}

// ---------------------------------------------------------------------------
// forward value flow

// FlowSet returns the SSA values that v may flow into unchanged: through φs,
// interface/type changes, stores to and loads from plain locals, tuple
// extraction, and - across an eligible helper's boundary - from a returned
// value to the call's result at every call site, and from an argument to the
// helper's parameter.
func FlowSet(v ssa.Value) map[ssa.Value]bool {
	out := map[ssa.Value]bool{}
	var visit func(x ssa.Value, depth int)
	visit = func(x ssa.Value, depth int) {
		if x == nil || out[x] || depth > 24 {
			return
		}
		out[x] = true
		refs := x.Referrers()
		if refs == nil {
			return
		}
		for _, r := range *refs {
			switch y := r.(type) {
			case *ssa.Phi:
				visit(y, depth+1)
			case *ssa.ChangeInterface:
				visit(y, depth+1)
			case *ssa.ChangeType:
				visit(y, depth+1)
			case *ssa.MakeInterface:
				visit(y, depth+1)
			case *ssa.Store:
				if y.Val != x {
					continue
				}
				// a local variable (possibly captured by closures of the same function, e.g. a named result
				// assigned in a deferred recover): the value may be read back by any load of that variable
				cell := y.Addr
				if fv, ok := cell.(*ssa.FreeVar); ok {
					cell = c18Binding(fv)
				}
				if pp, isParam := cell.(*ssa.Parameter); isParam {
					// stored through a pointer parameter (a named result handed to a helper as &retErr): the variable
					// is the one every call/defer site passes
					f := pp.Parent()
					idx := -1
					for i, q := range f.Params {
						if q == pp {
							idx = i
						}
					}
					for _, site := range sitesOf(f) {
						args := site.Common().Args
						if site.Common().StaticCallee() == f && idx >= 0 && idx < len(args) {
							if al, ok := args[idx].(*ssa.Alloc); ok {
								cell = al
							}
						}
					}
				}
				a, ok := cell.(*ssa.Alloc)
				if !ok {
					continue
				}
				var loads func(addr ssa.Value, d int)
				loads = func(addr ssa.Value, d int) {
					if addr == nil || addr.Referrers() == nil || d > 3 {
						return
					}
					for _, rr := range *addr.Referrers() {
						switch z := rr.(type) {
						case *ssa.UnOp:
							if z.Op == token.MUL && z.X == addr {
								visit(z, depth+1)
							}
						case *ssa.MakeClosure:
							if g, ok := z.Fn.(*ssa.Function); ok {
								for bi, b := range z.Bindings {
									if b == addr && bi < len(g.FreeVars) {
										loads(g.FreeVars[bi], d+1)
									}
								}
							}
						}
					}
				}
				loads(a, 0)
			case *ssa.Return:
				f := y.Parent()
				if !Eligible(f) {
					continue
				}
				idx := -1
				for i, res := range y.Results {
					if res == x {
						idx = i
					}
				}
				for _, site := range sitesOf(f) {
					sv := site.Value()
					if sv == nil {
						continue
					}
					if len(y.Results) == 1 {
						visit(sv, depth+1)
						continue
					}
					if sv.Referrers() != nil {
						for _, rr := range *sv.Referrers() {
							if ex, ok := rr.(*ssa.Extract); ok && ex.Index == idx {
								visit(ex, depth+1)
							}
						}
					}
				}
			case ssa.CallInstruction:
				if h := helperOf(y); h != nil {
					for i, a := range Args(y) {
						if a == x && i < len(h.Params) {
							visit(h.Params[i], depth+1)
						}
					}
				}
			}
		}
	}
	visit(v, 0)
	return out
}

// ConstAlternatives: the finitely many constant byte strings v can hold - a
// constant, a φ of such, a plain local assigned only such, or a result of an
// eligible helper all of whose returns are such (non-constant results of
// other indices do not matter). ok is false when some alternative is not a constant.
func ConstAlternatives(v ssa.Value) (alts [][]byte, ok bool) {
	seen := map[ssa.Value]bool{}
	ok = true
	var rec func(x ssa.Value, d int)
	rec = func(x ssa.Value, d int) {
		if !ok || seen[x] {
			return
		}
		seen[x] = true
		if d > 8 {
			ok = false
			return
		}
		if b, isC := constBytes(x); isC {
			alts = append(alts, b)
			return
		}
		switch y := Strip(x).(type) {
		case *ssa.Parameter:
			// a helper's parameter: the constants its call sites pass
			h := y.Parent()
			idx := -1
			for i, q := range h.Params {
				if q == y {
					idx = i
				}
			}
			sites := sitesOf(h)
			if !Eligible(h) || idx < 0 || len(sites) == 0 {
				ok = false
				return
			}
			for _, s := range sites {
				a := Args(s)
				if idx >= len(a) {
					ok = false
					return
				}
				rec(a[idx], d+1)
			}
		case *ssa.Phi:
			for _, e := range y.Edges {
				rec(e, d+1)
			}
		case *ssa.Extract:
			call, isCall := y.Tuple.(*ssa.Call)
			if !isCall {
				ok = false
				return
			}
			h := helperOf(call)
			if h == nil {
				ok = false
				return
			}
			for _, r := range Returns(h) {
				rv := RetVals(r)
				if y.Index >= len(rv) {
					ok = false
					return
				}
				rec(rv[y.Index], d+1)
			}
		case *ssa.Call:
			h := helperOf(y)
			if h == nil || h.Signature.Results().Len() != 1 {
				ok = false
				return
			}
			for _, r := range Returns(h) {
				rec(RetVals(r)[0], d+1)
			}
		default:
			ok = false
		}
	}
	rec(v, 0)
	if len(alts) == 0 {
		ok = false
	}
	return
}

// smallGenericHelper: an instance of an unexported generic function of the module that has no loop (orDefault[T],
// ptrField[T] …): explored inline like any other small helper.
func smallGenericHelper(h *ssa.Function) bool {
	if h == nil || !strings.HasPrefix(h.Synthetic, "instance of ") || len(h.Blocks) == 0 || !curProgRoot(h) || h.Signature.Recv() != nil {
		return false
	}
	if r := []rune(h.Name()); len(r) == 0 || unicode.IsUpper(r[0]) {
		return false
	}
	for _, b := range h.Blocks {
		if LoopHeader(b) != nil {
			return false
		}
	}
	return true
}

// structFieldOfCall: v reads field #fi of the struct value a call returned - directly, or through the local the result
// was stored in (stored once).
func structFieldOfCall(v ssa.Value) (call *ssa.Call, fi int, ok bool) {
	switch x := v.(type) {
	case *ssa.Field:
		if c, isC := x.X.(*ssa.Call); isC {
			return c, x.Field, true
		}
	case *ssa.UnOp:
		if x.Op != token.MUL {
			return nil, 0, false
		}
		fa, isFA := x.X.(*ssa.FieldAddr)
		if !isFA {
			return nil, 0, false
		}
		a, isA := fa.X.(*ssa.Alloc)
		if !isA || a.Referrers() == nil {
			return nil, 0, false
		}
		var st *ssa.Store
		for _, r := range *a.Referrers() {
			switch y := r.(type) {
			case *ssa.Store:
				if y.Addr == ssa.Value(a) {
					if st != nil {
						return nil, 0, false
					}
					st = y
				}
			case *ssa.FieldAddr:
				// only read through: no store into a field of the local
				if y.Referrers() != nil {
					for _, rr := range *y.Referrers() {
						if s2, isS := rr.(*ssa.Store); isS && s2.Addr == ssa.Value(y) {
							return nil, 0, false
						}
					}
				}
			case *ssa.DebugRef:
			default:
				return nil, 0, false
			}
		}
		if st == nil {
			return nil, 0, false
		}
		if c, isC := st.Val.(*ssa.Call); isC {
			return c, fa.Field, true
		}
	}
	return nil, 0, false
}

// fieldBoolConj: the conjunction (in the caller's terms) under which boolean field #fi of the struct the helper
// returns equals want, when the helper is side-effect free, builds the struct once and stores the field once.
func fieldBoolConj(c *ssa.Call, fi int, want bool, depth int) ([]string, bool) {
	callee := c.Call.StaticCallee()
	if callee == nil || depth > 3 || !curProgRoot(callee) || len(callee.Blocks) == 0 || callee.Signature.Results().Len() != 1 || !sideEffectFree(callee, 0) {
		return nil, false
	}
	rets := Returns(callee)
	if len(rets) != 1 {
		return nil, false
	}
	ld, ok := rets[0].Results[0].(*ssa.UnOp)
	if !ok || ld.Op != token.MUL {
		return nil, false
	}
	a, ok := ld.X.(*ssa.Alloc)
	if !ok || a.Referrers() == nil {
		return nil, false
	}
	var val ssa.Value
	n := 0
	for _, r := range *a.Referrers() {
		fa, isFA := r.(*ssa.FieldAddr)
		if !isFA || fa.Field != fi || fa.Referrers() == nil {
			continue
		}
		for _, rr := range *fa.Referrers() {
			if st, isS := rr.(*ssa.Store); isS && st.Addr == ssa.Value(fa) {
				val = st.Val
				n++
				if len(GuardsOfBlock(st.Block())) != 0 {
					return nil, false // a conditional store: not one decision
				}
			}
		}
	}
	if n != 1 || val == nil {
		return nil, false
	}
	if b, isB := types.Unalias(val.Type()).Underlying().(*types.Basic); !isB || b.Kind() != types.Bool {
		return nil, false
	}
	env := map[*ssa.Parameter]string{}
	for i, arg := range c.Call.Args {
		if i < len(callee.Params) {
			env[callee.Params[i]] = Desc(arg)
		}
	}
	descEnv = append(descEnv, env)
	defer func() { descEnv = descEnv[:len(descEnv)-1] }()
	return expandAtomConj(Atom{val, want}, depth+1), true
}
