package zv

import (
	"go/ast"
	"go/token"
	"go/types"
	"sort"

	"golang.org/x/tools/go/packages"
)

// DeclOf finds the AST declaration of pkg.(recv).name (recv "" for functions).
func (p *Program) DeclOf(pkg, recv, name string) (*ast.FuncDecl, *packages.Package) {
	pk := p.Pkgs[pkg]
	if pk == nil {
		return nil, nil
	}
	for _, f := range pk.Syntax {
		for _, d := range f.Decls {
			fd, ok := d.(*ast.FuncDecl)
			if !ok || fd.Name.Name != name {
				continue
			}
			if recv == "" && fd.Recv == nil {
				return fd, pk
			}
			if recv != "" && fd.Recv != nil && len(fd.Recv.List) == 1 && recvTypeName(fd.Recv.List[0].Type) == recv {
				return fd, pk
			}
		}
	}
	return nil, pk
}

func recvTypeName(e ast.Expr) string {
	for {
		switch x := e.(type) {
		case *ast.StarExpr:
			e = x.X
		case *ast.ParenExpr:
			e = x.X
		case *ast.IndexExpr:
			e = x.X
		case *ast.IndexListExpr:
			e = x.X
		case *ast.Ident:
			return x.Name
		default:
			return ""
		}
	}
}

// EachFuncDecl visits all function declarations of the root packages.
func (p *Program) EachFuncDecl(f func(pk *packages.Package, fd *ast.FuncDecl)) {
	for _, pk := range p.Roots {
		for _, file := range pk.Syntax {
			for _, d := range file.Decls {
				if fd, ok := d.(*ast.FuncDecl); ok && fd.Body != nil {
					f(pk, fd)
				}
			}
		}
	}
}

// ConstsOfType lists the package-level constants of the given named type,
// sorted by value.
func (p *Program) ConstsOfType(pkg string, named *types.Named) []*types.Const {
	pk := p.Pkgs[pkg]
	if pk == nil {
		return nil
	}
	var out []*types.Const
	sc := pk.Types.Scope()
	for _, n := range sc.Names() {
		if c, ok := sc.Lookup(n).(*types.Const); ok && types.Identical(c.Type(), named) {
			out = append(out, c)
		}
	}
	sort.Slice(out, func(i, j int) bool {
		a, _ := constInt64(out[i])
		b, _ := constInt64(out[j])
		if a != b {
			return a < b
		}
		return out[i].Name() < out[j].Name()
	})
	return out
}

func constInt64(c *types.Const) (int64, bool) {
	return ConstObjInt(c)
}

// ConstOf resolves an expression that names a constant object.
func ConstOf(info *types.Info, e ast.Expr) *types.Const {
	switch x := e.(type) {
	case *ast.Ident:
		c, _ := info.Uses[x].(*types.Const)
		return c
	case *ast.SelectorExpr:
		c, _ := info.Uses[x.Sel].(*types.Const)
		return c
	case *ast.ParenExpr:
		return ConstOf(info, x.X)
	}
	return nil
}

// CalleeOf resolves the function object called by a call expression.
func CalleeOf(info *types.Info, call *ast.CallExpr) *types.Func {
	var id *ast.Ident
	switch f := ast.Unparen(call.Fun).(type) {
	case *ast.Ident:
		id = f
	case *ast.SelectorExpr:
		id = f.Sel
	case *ast.IndexExpr:
		switch g := ast.Unparen(f.X).(type) {
		case *ast.Ident:
			id = g
		case *ast.SelectorExpr:
			id = g.Sel
		}
	}
	if id == nil {
		return nil
	}
	fn, _ := info.Uses[id].(*types.Func)
	return fn
}

// IsConversion reports whether call is a type conversion; returns the target type.
func IsConversion(info *types.Info, call *ast.CallExpr) (types.Type, bool) {
	tv, ok := info.Types[call.Fun]
	if ok && tv.IsType() {
		return tv.Type, true
	}
	return nil, false
}

func posOf(n ast.Node) token.Pos {
	if n == nil {
		return token.NoPos
	}
	return n.Pos()
}
