package zv

import (
	"go/token"
	"go/types"
	"sort"
	"strings"

	"golang.org/x/tools/go/ssa"
)

// Access is one read or write of a struct field or package-level variable.
type Access struct {
	Fn    *ssa.Function
	Instr ssa.Instruction
	Field string
	Write bool
	Base  ssa.Value // struct pointer the field is selected from (nil for globals)
	Esc   bool      // the field's address escapes (passed on): treated as read+write
}

// FieldAccesses finds every access to the named fields of the named struct
// type in the root packages (closures included).
func (p *Program) FieldAccesses(named *types.Named, fields map[string]bool) []Access {
	var out []Access
	p.EachRootFunc(func(fn *ssa.Function) {
		AllInstrs(fn, func(i ssa.Instruction) {
			fa, ok := i.(*ssa.FieldAddr)
			if !ok {
				// value-form field reads (x.f on a struct value)
				if f, ok := i.(*ssa.Field); ok {
					if n, _ := types.Unalias(f.X.Type()).(*types.Named); n != nil && n.Origin() == named.Origin() && fields[fieldName(f.X.Type(), f.Field)] {
						out = append(out, Access{Fn: fn, Instr: f, Field: fieldName(f.X.Type(), f.Field), Base: f.X})
					}
				}
				return
			}
			n, _ := types.Unalias(deref(fa.X.Type())).(*types.Named)
			if n == nil || n.Origin() != named.Origin() {
				return
			}
			fname := fieldName(fa.X.Type(), fa.Field)
			if !fields[fname] {
				return
			}
			if fa.Referrers() == nil {
				return
			}
			for _, r := range *fa.Referrers() {
				switch x := r.(type) {
				case *ssa.UnOp:
					if x.Op == token.MUL {
						out = append(out, Access{Fn: fn, Instr: x, Field: fname, Base: fa.X})
					}
				case *ssa.Store:
					if x.Addr == ssa.Value(fa) {
						out = append(out, Access{Fn: fn, Instr: x, Field: fname, Write: true, Base: fa.X})
					} else {
						out = append(out, Access{Fn: fn, Instr: x, Field: fname, Write: true, Base: fa.X, Esc: true})
					}
				case *ssa.DebugRef:
				case *ssa.FieldAddr, *ssa.IndexAddr:
					// sub-object access: classify by its own referrers (read unless stored to)
					w := !readOnlyAddr(x.(ssa.Value), 0)
					out = append(out, Access{Fn: fn, Instr: x, Field: fname, Write: w, Base: fa.X})
				case ssa.CallInstruction:
					// method call with the field's address as receiver, e.g. s.mu.Lock(): the mutex itself
					out = append(out, Access{Fn: fn, Instr: x, Field: fname, Write: true, Base: fa.X, Esc: true})
				default:
					out = append(out, Access{Fn: fn, Instr: r, Field: fname, Write: true, Base: fa.X, Esc: true})
				}
			}
		})
	})
	sort.SliceStable(out, func(i, j int) bool { return out[i].Instr.Pos() < out[j].Instr.Pos() })
	return out
}

// GlobalAccesses finds reads and writes of a package-level variable.
func (p *Program) GlobalAccesses(pkg, name string) []Access {
	var out []Access
	sp := p.SSAPkg[pkg]
	if sp == nil {
		return nil
	}
	g, _ := sp.Members[name].(*ssa.Global)
	if g == nil {
		g = renamedGlobal[pkg+"."+name] // carried on under another name (see globalCanon)
	}
	if g == nil {
		return nil
	}
	visit := func(fn *ssa.Function) {
		AllInstrs(fn, func(i ssa.Instruction) {
			switch x := i.(type) {
			case *ssa.UnOp:
				if x.Op == token.MUL && x.X == ssa.Value(g) {
					out = append(out, Access{Fn: fn, Instr: x, Field: name})
				}
			case *ssa.Store:
				if x.Addr == ssa.Value(g) {
					out = append(out, Access{Fn: fn, Instr: x, Field: name, Write: true})
				}
			case *ssa.MapUpdate:
				if u, ok := x.Map.(*ssa.UnOp); ok && u.X == ssa.Value(g) {
					out = append(out, Access{Fn: fn, Instr: x, Field: name, Write: true})
				}
			}
		})
	}
	p.EachRootFunc(visit)
	if init := sp.Func("init"); init != nil {
		visit(init)
	}
	return out
}

// LockSummary: the mutexes (as access paths relative to the receiver /
// parameters) a function may acquire, directly or through static calls on the
// same receiver.
func (p *Program) LockSummaries() map[*ssa.Function]map[string]bool {
	if p.lockSum != nil {
		return p.lockSum
	}
	sum := map[*ssa.Function]map[string]bool{}
	funcs := p.RootFuncs()
	for _, fn := range funcs {
		s := map[string]bool{}
		for _, cl := range Calls(fn) {
			if k, m := LockEvent(cl); k > 0 {
				s[m] = true
			}
		}
		sum[fn] = s
	}
	for changed, iter := true, 0; changed && iter < 10; iter++ {
		changed = false
		for _, fn := range funcs {
			for _, cl := range Calls(fn) {
				callee := StaticCallee(cl)
				if callee == nil || sum[callee] == nil || len(callee.Params) == 0 {
					continue
				}
				if _, isGo := cl.(*ssa.Go); isGo {
					continue
				}
				args := cl.Common().Args
				for m := range sum[callee] {
					// translate callee-relative path to caller-relative
					t := translatePath(m, callee, args)
					if t != "" && !sum[fn][t] {
						sum[fn][t] = true
						changed = true
					}
				}
			}
		}
	}
	p.lockSum = sum
	return sum
}

// translatePath rewrites "recv.mu" of the callee into the caller's terms.
func translatePath(m string, callee *ssa.Function, args []ssa.Value) string {
	for i, prm := range callee.Params {
		if i >= len(args) {
			break
		}
		if m == PN(prm) || strings.HasPrefix(m, PN(prm)+".") {
			return Desc(args[i]) + strings.TrimPrefix(m, PN(prm))
		}
	}
	if !strings.Contains(m, ".") { // global mutex
		return m
	}
	return ""
}
