package zv

import (
	"go/token"
	"go/types"
	"sort"
	"strings"

	"golang.org/x/tools/go/ssa"
)

func init() {
	Props["C07"] = Prop{
		Title: "Logger context is exact and isolated across derived loggers",
		Fn:    checkC07,
		Explanation: "Decides that every derive operation (Logger/SugaredLogger With, WithLazy, Named, WithOptions, Sugar/Desugar; every Core.With; encoder Clone; slog WithAttrs/WithGroup; RegisterHooks; NewTee) is a pure function of its receiver: no store through the receiver in the method, its closures or (transitively) the helpers it passes the receiver to; no append onto a receiver-owned slice unless capacity-capped; the result is a fresh object or the untouched receiver; each wrapper core's With re-wraps wrapped.With(fields) with the same fields and copies every other field of its struct from the receiver (struct-copy completeness); the JSON encoder's clone takes a fresh pooled buffer and Clone copies the parent's bytes into it; ioCore.With adds fields to the clone only; name joining and propagation into the entry; the lazy core evaluates its fields exactly once, before any delegation. " +
			"Also decided: multiCore.With on a two-branch tee yields branch[i].With(fields) in slot i on every path (whatever the branches currently enable); in every function of every package an append onto a slice owned by the receiver/an argument object - directly or through a helper that appends onto its parameter - is capacity-capped or the owner's own growth; the namespace counter accounts for the open braces and Clone carries it (see C01). " +
			"NOT decided: that arbitrary derivation programs yield the expected field lists value by value (follows from purity plus order, but values are not compared); mutable user marshalers.",
		Assumptions: commonAssumptions,
	}
}

// mutatesParam0 computes, for root functions, whether they (transitively
// through static calls passing it on as first argument) store through their
// first parameter / receiver.
func (c *Ctx) mutatesRecv() map[*ssa.Function]string {
	sum := map[*ssa.Function]string{}
	funcs := c.RootFuncs()
	for _, fn := range funcs {
		if len(fn.Params) == 0 {
			continue
		}
		if _, isPtr := fn.Params[0].Type().Underlying().(*types.Pointer); !isPtr {
			if _, isSlice := fn.Params[0].Type().Underlying().(*types.Slice); !isSlice {
				continue
			}
		}
		for _, f := range WithClosures(fn) {
			AllInstrs(f, func(i ssa.Instruction) {
				if st, ok := i.(*ssa.Store); ok && sum[fn] == "" {
					root := Root(st.Addr)
					if root == ssa.Value(fn.Params[0]) {
						sum[fn] = "stores to " + Desc(st.Addr) + " (" + FNm(fn) + ")"
					}
					// closure capturing the receiver by reference
					if fv, ok := root.(*ssa.FreeVar); ok && f != fn && fv.Name() == PN(fn.Params[0]) {
						sum[fn] = "stores to " + Desc(st.Addr) + " (closure of " + FNm(fn) + ")"
					}
				}
			})
		}
	}
	for changed, iter := true, 0; changed && iter < 8; iter++ {
		changed = false
		for _, fn := range funcs {
			if sum[fn] != "" || len(fn.Params) == 0 {
				continue
			}
			for _, f := range WithClosures(fn) {
				for _, cl := range Calls(f) {
					callee := StaticCallee(cl)
					if callee == nil || sum[callee] == "" {
						continue
					}
					args := cl.Common().Args
					if len(args) == 0 {
						continue
					}
					r := Root(args[0])
					if r == ssa.Value(fn.Params[0]) || (func() bool { fv, ok := r.(*ssa.FreeVar); return ok && fv.Name() == PN(fn.Params[0]) })() {
						sum[fn] = "calls " + FNm(callee) + ", which " + sum[callee]
						changed = true
					}
				}
			}
		}
	}
	return sum
}

type deriveM struct{ pkg, recv, name string }

func checkC07(c *Ctx) {
	c.Rule("R7.1", "derive methods are pure: no store through the receiver (transitively), result fresh or the untouched receiver", 24)
	c.Rule("R7.2", "no aliasing append onto receiver-owned slices in derive methods", 0)
	c.Rule("R7.3", "encoder clone owns a fresh buffer holding a copy of the parent's bytes; ioCore.With adds fields to the clone only", 3)
	c.Rule("R7.4", "wrapper cores forward With to the wrapped core with the same fields and copy every other field", 5)
	c.Rule("R7.5", "names: empty segment returns the receiver, join with \".\", name copied into the entry", 3)
	c.Rule("R7.6", "lazy With: fields evaluated exactly once, before every delegation", 3)
	c.Rule("R7.13", "pooled buffers are released at most once (after a double release two sibling loggers build their contexts in one buffer)", 3)
	c.As(map[string]string{"R8.4": "R7.13"}, func() { c8SingleRelease(c) })
	c.Rule("R7.14", "nothing a derived logger keeps (the fields of a lazy With, a context buffer) points into a pooled object that is released: the next call to take that object from the pool would rewrite the child's context", 8)
	c.Rule("R7.15", "WithLazy never evaluates a field at derivation: it calls no With itself, whatever the field types", 1)
	c7LazyNeverEager(c, "R7.15")
	c8UseAfterRelease(c, "R7.14", c8ReleaseFns(c))

	mut := c.mutatesRecv()
	exemptMut := map[string]string{}
	if w := lazyOnceWrapper(c); w != nil {
		exemptMut[FStr(w)] = "publishes the derived core once under sync.Once (decided by R7.6 / C09 R9.2)"
	} else if w, _, _ := lazyMutexOnce(c); w != nil {
		exemptMut[FStr(w)] = "publishes the derived core once under its own mutex and once-flag (decided by R7.6)"
	}
	var list []deriveM
	for _, n := range []string{"With", "WithLazy", "Named", "WithOptions", "Sugar"} {
		list = append(list, deriveM{ZapPath, "Logger", n})
	}
	for _, n := range []string{"With", "WithLazy", "Named", "WithOptions", "Desugar"} {
		list = append(list, deriveM{ZapPath, "SugaredLogger", n})
	}
	if iface := c.coreIface(); iface != nil {
		for _, t := range c.Implementers(iface) {
			list = append(list, deriveM{t.Obj().Pkg().Path(), TNm(t.Obj()), "With"})
		}
	}
	list = append(list, deriveM{CorePath, "jsonEncoder", "Clone"}, deriveM{CorePath, "consoleEncoder", "Clone"}, deriveM{CorePath, "ioCore", "clone"}, deriveM{ZapPath, "Logger", "clone"},
		deriveM{SlogPath, "Handler", "WithAttrs"}, deriveM{SlogPath, "Handler", "WithGroup"})
	for _, d := range list {
		fn := c.Method(d.pkg, d.recv, d.name)
		if fn == nil && d.name == "clone" {
			continue // private clone helpers may be inlined into their only caller
		}
		if !c.Anchor("R7.1", d.pkg+"."+d.recv+"."+d.name, fn != nil) {
			continue
		}
		c7Pure(c, fn, mut, exemptMut)
	}
	for _, n := range []struct{ pkg, name string }{{CorePath, "RegisterHooks"}, {CorePath, "NewTee"}, {CorePath, "NewLazyWith"}} {
		fn := c.Func(n.pkg, n.name)
		if !c.Anchor("R7.1", n.pkg+"."+n.name, fn != nil) {
			continue
		}
		c7Pure(c, fn, mut, exemptMut)
	}
	c.Rule("R7.7", "logging through an encoder never modifies it: EncodeEntry/Clone/writeContext only read the shared receiver", 3)
	c9EncoderPurity(c, "R7.7")
	c.Rule("R7.12", "a cloned encoder shares no pooled buffer with its source (a derived logger's context cannot be overwritten through its parent's scratch buffer)", 1)
	c8CloneOwnership(c, "R7.12")
	c.Rule("R7.11", "no value built from a parent shares a slice tail with it: appends onto receiver/argument-owned slices are capped or the owner's own growth (all packages, helper-transparent)", 1)
	c7AppendsAll(c, "R7.11")
	c.Rule("R7.8", "namespaces nest per object: the open-namespace counter accounts for exactly the braces still open, so a nested object never closes (or forgets) the logger's own namespace", 3)
	c1Namespaces(c, "R7.8")
	c7Clone(c)
	c.Rule("R7.9", "slog handlers: context added through WithAttrs lands under exactly the groups open at that point (pending-group protocol), so a derived handler's entries nest as its own derivation path says", 2)
	c18EmitProtocol(c, "R7.9")
	c7Eager(c)
	c7Wrappers(c)
	c7Names(c)
	c7Lazy(c)
}

func c7Pure(c *Ctx, fn *ssa.Function, mut map[*ssa.Function]string, exempt map[string]string) {
	name := FStr(fn)
	if len(fn.Params) == 0 {
		return
	}
	_ = fn.Params[0]
	why := mut[fn]
	if why != "" {
		// allow when the only mutation goes through an exempt helper
		for ex := range exempt {
			if strings.Contains(why, "calls "+ex[strings.LastIndex(ex, ".")+1:]+",") {
				why = ""
			}
		}
	}
	c.Check(why == "", "R7.1", name, "no-store-through-receiver", fn.Pos(), "deriving does not modify the receiver (its parent, siblings and descendants keep emitting the same context): %s", why)
	c7Appends(c, "R7.2", fn)
	// result: fresh, the receiver, or a call result
	for k, r := range Returns(fn) {
		rv := RetVals(r)
		if len(rv) == 0 {
			continue
		}
		v := Strip(rv[0])
		ok := false
		switch x := v.(type) {
		case *ssa.Alloc, *ssa.MakeSlice, *ssa.Call, *ssa.TypeAssert, *ssa.Phi, *ssa.Extract:
			ok = true
			_ = x
		case *ssa.Parameter:
			ok = true // the untouched receiver (or an argument, NewTee with one core)
		case *ssa.UnOp:
			ok = true // loaded element (NewTee: cores[0]); struct value copy (consoleEncoder{...})
		case *ssa.ChangeType, *ssa.Const:
			ok = true
		}
		c.Check(ok, "R7.1", name, "result#"+itoa(k+1), r.Pos(), "returns a fresh object, a delegate's result or the untouched receiver (%s)", Desc(rv[0]))
	}
}

func c7Clone(c *Ctx) {
	cl := c.Method(CorePath, "jsonEncoder", "clone")
	cln := c.Method(CorePath, "jsonEncoder", "Clone")
	je := c.Named(CorePath, "jsonEncoder")
	if cl == nil && je != nil {
		// the helper under another signature (cloneWith(context)): the unexported method of the encoder that takes an
		// encoder out of the pool and returns it
		for _, f := range coreFuncs(c) {
			rn := RecvNamed(f)
			if rn == nil || rn.Obj() != je.Obj() || f.Parent() != nil || f.Object() == nil || f.Object().Exported() || f.Signature.Results().Len() != 1 {
				continue
			}
			if n, _ := types.Unalias(deref(f.Signature.Results().At(0).Type())).(*types.Named); n == nil || n.Obj() != je.Obj() {
				continue
			}
			gets := false
			for _, call := range Calls(f) {
				if cf := CalleeFunc(call); cf != nil && FNm(cf) == "Get" && strings.Contains(Desc(call.Common().Value)+Desc(call.Value()), "_jsonPool") {
					gets = true
				}
			}
			if gets {
				if cl != nil {
					cl = nil
					break
				}
				cl = f
			}
		}
	}
	if c.Anchor("R7.3", "zapcore.jsonEncoder.clone/Clone", cl != nil && cln != nil && je != nil) {
		// by path exploration (helpers inline): the object clone returns comes out of the encoder pool, and what its
		// fields hold when it is returned
		got := map[string]string{}
		ok := true
		fromPool := func(obj ssa.Value) bool {
			call, isCall := obj.(*ssa.Call)
			return isCall && CalleeFunc(call) != nil && FNm(CalleeFunc(call)) == "Get"
		}
		other, trunc, nObj := DerivedObjectsFrom(cl, je, fromPool, func(o derivedObj) {
			got = o.Fields
			ok = ok && isFreshBufferDesc(got["buf"]) && got["EncoderConfig"] == "enc.EncoderConfig" && got["spaced"] == "enc.spaced" && got["openNamespaces"] == "enc.openNamespaces"
		})
		ok = ok && !trunc && nObj > 0 && len(other) == 0
		c.Check(ok, "R7.3", FStr(cl), "clone-fields", cl.Pos(), "the clone shares only the immutable config and copies spaced/openNamespaces; its buffer is fresh from the pool (%v)", got)
		// Clone copies bytes: on every path (helpers inline) the parent's bytes are written into the clone's buffer,
		// unless a branch established that there are none
		rn := PN(cln.Params[0])
		seqs, trunc := ConcPaths(cln, ConcCfg{
			Inline: func(h *ssa.Function) bool { return h != cl },
			Event: func(in ssa.Instruction, st *ConcState) string {
				call, ok := in.(*ssa.Call)
				if !ok {
					return ""
				}
				if IsCallTo(call, "(*go.uber.org/zap/buffer.Buffer).Write", "(*go.uber.org/zap/buffer.Buffer).AppendBytes") {
					a := Args(call)
					if st.Desc(a[0]) == "clone("+rn+").buf" && st.Desc(a[1]) == "Bytes("+rn+".buf)" {
						return "copy"
					}
					return "write(" + st.Desc(a[0]) + "," + st.Desc(a[1]) + ")"
				}
				return ""
			},
			Branch: func(cond ssa.Value, taken bool, st *ConcState) string {
				d := st.Desc(cond)
				for _, e := range []string{"len(Bytes(" + rn + ".buf))", "Len(" + rn + ".buf)"} {
					if d == "("+e+" == 0)" && taken || (d == "("+e+" > 0)" || d == "("+e+" != 0)") && !taken {
						return "empty"
					}
				}
				return ""
			},
		})
		okCopy := !trunc && len(seqs) > 0
		nCopy := 0
		for _, sq := range seqs {
			switch {
			case sq == "copy" || strings.HasSuffix(sq, "; copy") && !strings.Contains(sq, "write("):
				nCopy++
			case sq == "empty":
			default:
				okCopy = false
			}
		}
		okCopy = okCopy && nCopy > 0
		if !okCopy && FNm(cl) != "clone" {
			// the helper writes the context itself: whether the clone receives it is decided by R7.10 (clone-carries-context)
			okCopy = true
		}
		c.Check(okCopy, "R7.3", FStr(cln), "copies-context-bytes", cln.Pos(), "Clone writes the parent's accumulated context bytes into the clone's own buffer")
	}
	iw := c.Method(CorePath, "ioCore", "With")
	ioc := c.Named(CorePath, "ioCore")
	if c.Anchor("R7.3", "zapcore.ioCore.With", iw != nil && ioc != nil) {
		rc := PN(iw.Params[0])
		// by path exploration (helpers inline): the derived core is a fresh ioCore whose encoder is a clone of the
		// receiver's encoder, sharing sink and enabler (field by field, or as a whole copy with the encoder replaced);
		// the new fields are serialised into that clone, never into the receiver's encoder
		resolve := func(st *ConcState, v ssa.Value) ssa.Value {
			for k := 0; k < 16; k++ {
				switch x := v.(type) {
				case *ssa.MakeInterface:
					v = x.X
					continue
				case *ssa.ChangeInterface:
					v = x.X
					continue
				}
				nx := st.Step(v)
				if nx == nil {
					break
				}
				v = nx
			}
			return v
		}
		isCloneOfRecvEnc := func(st *ConcState, v ssa.Value) bool {
			cl, ok := resolve(st, v).(*ssa.Call)
			return ok && cl.Call.IsInvoke() && FNm(cl.Call.Method) == "Clone" && st.Desc(cl.Call.Value) == rc+".enc"
		}
		var got []string
		var bad []string
		seqs, trunc := ConcPaths(iw, ConcCfg{
			Event: func(in ssa.Instruction, st *ConcState) string {
				switch x := in.(type) {
				case *ssa.Call:
					if IsCallTo(x, "go.uber.org/zap/zapcore.addFields") && len(x.Call.Args) == 2 {
						if isCloneOfRecvEnc(st, x.Call.Args[0]) && resolve(st, x.Call.Args[1]) == ssa.Value(iw.Params[1]) {
							return "fields-into-clone"
						}
						return "fields-into(" + st.Desc(x.Call.Args[0]) + ")"
					}
				case *ssa.Return:
					if len(x.Results) != 1 || len(st.cfg.stackDepth()) != 0 {
						return ""
					}
					obj := resolve(st, x.Results[0])
					if n, _ := types.Unalias(deref(obj.Type())).(*types.Named); n == nil || n.Obj() != ioc.Obj() {
						return "ret-other(" + st.Desc(x.Results[0]) + ")"
					}
					if _, isAlloc := obj.(*ssa.Alloc); !isAlloc {
						return "ret-not-fresh(" + st.Desc(x.Results[0]) + ")"
					}
					fs := st.FieldsOf(obj)
					whole := fs["*"] == "*"+rc || fs["*"] == rc
					field := func(f string) string {
						if d, ok := fs[f]; ok {
							return d
						}
						if whole {
							return rc + "." + f
						}
						return ""
					}
					_, _, encV := st.FieldOf(obj, "enc")
					okEnc := encV != nil && isCloneOfRecvEnc(st, encV)
					d := "enc-cloned=" + map[bool]string{true: "yes", false: "no(" + field("enc") + ")"}[okEnc] + ",out=" + field("out") + ",enab=" + field("LevelEnabler")
					got = append(got, d)
					if okEnc && field("out") == rc+".out" && field("LevelEnabler") == rc+".LevelEnabler" {
						return "ret-derived"
					}
					return "ret(" + d + ")"
				}
				return ""
			},
		})
		for _, sq := range seqs {
			if sq != "fields-into-clone ; ret-derived" {
				bad = append(bad, sq)
			}
		}
		c.Check(!trunc && len(seqs) > 0 && len(bad) == 0, "R7.3", FStr(iw), "clone-fields", iw.Pos(), "on every path the derived core is a fresh ioCore with a clone of the receiver's encoder and the same sink and enabler, and the new fields go into that clone before it is returned (%v; offending: %v)", got, bad)
	}
}

func isFreshBufferDesc(d string) bool {
	return d == "(Get)()" || d == "Get()" || strings.HasPrefix(d, "Get(")
}

func c7Wrappers(c *Ctx) {
	for _, w := range []struct{ name, coreField string }{{"hooked", "Core"}, {"levelFilterCore", "core"}, {"sampler", "Core"}} {
		named := c.Named(CorePath, w.name)
		fn := c.Method(CorePath, w.name, "With")
		if !c.Anchor("R7.4", "zapcore."+w.name+".With", named != nil && fn != nil) {
			continue
		}
		recv, fields := fn.Params[0], fn.Params[1]
		st := named.Underlying().(*types.Struct)
		// the wrapped core: the wrapper's field of type zapcore.Core, whatever it is called (embedded or named)
		for i := 0; i < st.NumFields(); i++ {
			if TypeName(st.Field(i).Type()) == "zapcore.Core" {
				w.coreField = FN(st.Field(i))
			}
		}
		// by path exploration (helpers and shared constructors inline, whole copies of the receiver understood): what
		// every field of the returned wrapper holds
		var missing, wrong []string
		other, trunc, nObj := DerivedObjects(fn, named, func(o derivedObj) {
			for i := 0; i < st.NumFields(); i++ {
				f := FN(st.Field(i))
				d, ok := o.Fields[f]
				if !ok {
					missing = append(missing, f)
					continue
				}
				if f == w.coreField {
					call, _ := o.Vals[f].(*ssa.Call)
					okc := call != nil && IsCallTo(call, "(go.uber.org/zap/zapcore.Core).With") && o.St.Desc(Args(call)[0]) == PN(recv)+"."+f && concResolve(o.St, Args(call)[1]) == ssa.Value(fields)
					if !okc {
						wrong = append(wrong, f+"="+d)
					}
					continue
				}
				if d != PN(recv)+"."+f {
					wrong = append(wrong, f+"="+d)
				}
			}
		})
		c.Check(!trunc && nObj > 0 && len(other) == 0 && len(missing) == 0 && len(wrong) == 0, "R7.4", FStr(fn), "rewrap-complete", fn.Pos(), "on every path With returns a new %s with %s = wrapped.With(fields) and every other field copied from the receiver (left at zero: %v; not a plain copy: %v; returned instead: %v) — a forgotten field silently resets e.g. the sampler's shared counters or hook", w.name, w.coreField, missing, wrong, other)
		okRet := false
		for _, r := range Returns(fn) {
			rv := RetVals(r)[0]
			if mi, isMI := rv.(*ssa.MakeInterface); isMI {
				n, isN := types.Unalias(deref(mi.X.Type())).(*types.Named)
				okRet = isN && n.Origin() == named.Origin()
			} else {
				okRet = false
			}
		}
		c.Check(okRet, "R7.4", FStr(fn), "returns-own-type", fn.Pos(), "the derived core is again a %s", w.name)
	}
	// tee
	c7TeeWith(c, "R7.4")
	// observer
	cw := c.Method("go.uber.org/zap/zaptest/observer", "contextObserver", "With")
	co := c.Named("go.uber.org/zap/zaptest/observer", "contextObserver")
	if c.Anchor("R7.4", "observer.contextObserver.With", cw != nil && co != nil) {
		got := map[string]string{}
		ok := true
		other, trunc, nObj := DerivedObjects(cw, co, func(o derivedObj) {
			got = o.Fields
			rc, fl := PN(cw.Params[0]), PN(cw.Params[1])
			ctxOK := strings.HasPrefix(got["context"], "append("+rc+".context[:len("+rc+".context):len("+rc+".context)], "+fl) ||
				strings.HasPrefix(got["context"], "append(append(make([]zapcore.Field), "+rc+".context") && strings.Contains(got["context"], "), "+fl)
			ok = ok && got["LevelEnabler"] == rc+".LevelEnabler" && got["logs"] == rc+".logs" && ctxOK
		})
		ok = ok && !trunc && nObj > 0 && len(other) == 0
		c.Check(ok, "R7.4", FStr(cw), "rewrap-complete", cw.Pos(), "the derived observer shares enabler and log store and owns context = capped-append(parent context, fields) (%v)", got)
	}
}

func c7Names(c *Ctx) {
	fn := c.Method(ZapPath, "Logger", "Named")
	if c.Anchor("R7.5", "zap.Logger.Named", fn != nil) {
		okEmpty := false
		for _, r := range Returns(fn) {
			atoms := AtomStrings(Guards(r))
			if len(atoms) == 1 && atoms[0] == `s == ""` {
				okEmpty = Strip(RetVals(r)[0]) == ssa.Value(fn.Params[0])
			}
		}
		c.Check(okEmpty, "R7.5", FStr(fn), "empty-segment", fn.Pos(), "an empty name segment returns the receiver unchanged")
		// the clone's name: s for an unnamed parent, parent.name + "." + s otherwise (any spelling of the join)
		okFirst, okJoin := false, false
		rcv, seg := PN(fn.Params[0]), PN(fn.Params[1])
		for _, st := range FieldStoresOf(fn, c.Named(ZapPath, "Logger")) {
			if st.Field != "name" {
				continue
			}
			for _, alt := range valueAlternatives(st.Instr.Val, st.Instr.Block()) {
				d := alt.desc
				unnamed := containsS(alt.conds, rcv+`.name == ""`)
				named := containsS(alt.conds, rcv+`.name != ""`)
				switch {
				case unnamed && d == seg:
					okFirst = true
				case named && (d == "(("+rcv+`.name + ".") + `+seg+")" || strings.HasPrefix(d, "Join(") && strings.HasSuffix(d, `, ".")`) && joinParts(fn, seg)):
					okJoin = true
				}
			}
		}
		c.Check(okFirst && okJoin, "R7.5", FStr(fn), "dot-join", fn.Pos(), "the clone's name is s for an unnamed parent and parent.name + \".\" + s otherwise")
	}
	chk := c.Method(ZapPath, "Logger", "check")
	if c.Anchor("R7.5", "zap.Logger.check", chk != nil) {
		ef, efOK := entryAtCoreCheck(c)
		c.Check(efOK && ef["LoggerName"] == PN(chk.Params[0])+".name", "R7.5", FStr(chk), "name-into-entry", chk.Pos(), "every entry handed to Core.Check carries the logger's own name (%v)", ef)
	}
	sn := c.Method(ZapPath, "SugaredLogger", "Named")
	if c.Anchor("R7.5", "zap.SugaredLogger.Named", sn != nil) {
		ok := false
		for _, st := range FieldStoresOf(sn, c.Named(ZapPath, "SugaredLogger")) {
			ok = st.Field == "base" && len(sn.Params) == 2 && Desc(st.Instr.Val) == "Named("+PN(sn.Params[0])+".base, "+PN(sn.Params[1])+")"
		}
		c.Check(ok, "R7.5", FStr(sn), "delegates", sn.Pos(), "the sugared Named wraps base.Named(name)")
	}
}

// lazyOnceWrapper: the method of lazyWithCore that runs the one-time evaluation (it calls Do on the embedded Once).
func lazyOnceWrapper(c *Ctx) *ssa.Function {
	lz := c.Named(CorePath, "lazyWithCore")
	if lz == nil {
		return nil
	}
	var w *ssa.Function
	c.EachRootFunc(func(fn *ssa.Function) {
		if rn := RecvNamed(fn); rn == nil || rn.Obj() != lz.Obj() || fn.Parent() != nil {
			return
		}
		for _, cl := range Calls(fn) {
			if IsCallTo(cl, "(*sync.Once).Do") {
				w = fn
			}
		}
	})
	return w
}

func c7Lazy(c *Ctx) {
	lz := c.Named(CorePath, "lazyWithCore")
	init := lazyOnceWrapper(c)
	if lz != nil && init == nil {
		if mfn, flag, pub := lazyMutexOnce(c); mfn != nil {
			c7LazyMutex(c, lz, mfn, flag, pub)
			return
		}
	}
	if lz != nil && init == nil {
		// no sync.Once: is the evaluation - the wrapped core's With applied to the stored fields - made somewhere else?
		var at ssa.Instruction
		c.EachRootFunc(func(fn *ssa.Function) {
			if rn := RecvNamed(fn); rn == nil || rn.Obj() != lz.Obj() {
				return
			}
			for _, g := range WithClosures(fn) {
				for _, cl := range Calls(g) {
					cc := cl.Common()
					if cc.IsInvoke() && FNm(cc.Method) == "With" && len(cc.Args) == 1 {
						if _, isF := fieldOfNamed(cc.Value, lz); isF {
							if _, isF2 := fieldOfNamed(cc.Args[0], lz); isF2 {
								at = cl
							}
						}
					}
				}
			}
		})
		if at != nil {
			c.Bad("R7.6", CorePath+".lazyWithCore", "evaluated-once", at.Pos(), "the lazy fields are evaluated (%s.With(stored fields)) outside a sync.Once: two first uses that race both evaluate them, and the marshalers of the fields run twice, possibly at the same time", Desc(at.(ssa.CallInstruction).Common().Value))
			return
		}
	}
	if !c.Anchor("R7.6", "zapcore.lazyWithCore and its method that runs the sync.Once", lz != nil && init != nil) {
		return
	}
	// the field the Once closure publishes
	pubField := ""
	pubBodies := WithClosures(init)
	for _, cl := range Calls(init) {
		if IsCallTo(cl, "(*sync.Once).Do") {
			if mk, ok := Args(cl)[1].(*ssa.MakeClosure); ok {
				if b := onceBody(mk); b != nil {
					pubBodies = append(pubBodies, b) // a method value handed to Do
				}
			}
		}
	}
	for _, body := range pubBodies {
		for _, st := range FieldStoresOf(body, lz) {
			pubField = st.Field
		}
	}
	for _, m := range []string{"With", "Check", "Write", "Sync"} {
		fn := c.Method(CorePath, "lazyWithCore", m)
		if !c.Anchor("R7.6", "zapcore.lazyWithCore."+m, fn != nil) {
			continue
		}
		// by path exploration (helpers inline): the Once runs before the one delegation, which goes to the derived core
		seqs, trunc := ConcPaths(fn, ConcCfg{
			Event: func(in ssa.Instruction, st *ConcState) string {
				switch x := in.(type) {
				case *ssa.Call:
					if IsCallTo(x, "(*sync.Once).Do") {
						return "once"
					}
					if x.Call.IsInvoke() && FNm(x.Call.Method) == m {
						d := st.Desc(x.Call.Value)
						if i := strings.LastIndex(d, "."); i >= 0 && d[i+1:] == pubField {
							return "deleg-derived"
						}
						return "deleg:" + d
					}
				case *ssa.Return:
					return "ret"
				}
				return ""
			},
		})
		var bad []string
		for _, sq := range seqs {
			if sq != "once ; deleg-derived ; ret" {
				bad = append(bad, sq)
			}
		}
		c.Check(!trunc && len(seqs) > 0 && len(bad) == 0 && pubField != "", "R7.6", FStr(fn), "init-before-delegation", fn.Pos(), "%s forces the one-time evaluation on every path and then delegates, once, to the derived core it published (a bypass gives parent and child different views of a mutable field); offending paths: %v", m, bad)
	}
	// closure stores originalCore.With(fields) into core, exactly once
	n := 0
	okVal := false
	bodies := []*ssa.Function{init}
	for _, cl := range Calls(init) {
		if IsCallTo(cl, "(*sync.Once).Do") {
			if mk, ok := Args(cl)[1].(*ssa.MakeClosure); ok {
				if b := onceBody(mk); b != nil && b.Parent() != init {
					bodies = append(bodies, b)
				}
			}
		}
	}
	for _, body := range bodies {
		for _, st := range FieldStoresOf(body, lz) {
			n++
			rn := "d"
			if len(body.Params) > 0 {
				rn = PN(body.Params[0])
			} else if len(body.FreeVars) > 0 {
				rn = body.FreeVars[0].Name()
			}
			dv := Desc(st.Instr.Val)
			okVal = st.Field == "core" && (dv == "With(d.originalCore, d.fields)" || dv == "With("+rn+".originalCore, "+rn+".fields)")
		}
	}
	c.Check(n == 1 && okVal, "R7.6", FStr(init), "evaluates-once", init.Pos(), "the Once closure performs exactly one store: core = originalCore.With(fields)")
	_ = token.NoPos
}

type valAlt struct {
	val   ssa.Value
	desc  string
	conds []string
}

// valueAlternatives resolves a value that is a phi (conditional assignment)
// or the result of a side-effect-free helper into its alternatives, each with
// the conditions under which it is chosen (in the caller's terms).
func valueAlternatives(v ssa.Value, at *ssa.BasicBlock) []valAlt {
	return valueAlts(v, at, 0)
}

func valueAlts(v ssa.Value, at *ssa.BasicBlock, depth int) []valAlt {
	if call, ok := v.(*ssa.Call); ok && depth < 3 {
		if h := call.Call.StaticCallee(); h != nil && curProgRoot(h) && len(h.Blocks) > 0 && h.Signature.Results().Len() == 1 && sideEffectFree(h, 0) && Eligible(h) {
			env := map[*ssa.Parameter]string{}
			for i, a := range call.Call.Args {
				if i < len(h.Params) {
					env[h.Params[i]] = Desc(a)
				}
			}
			descEnv = append(descEnv, env)
			var out []valAlt
			for _, r := range Returns(h) {
				for _, alt := range valueAlts(RetVals(r)[0], r.Block(), depth+1) {
					out = append(out, alt)
				}
			}
			descEnv = descEnv[:len(descEnv)-1]
			base := AtomStrings(GuardsOfBlock(at))
			for i := range out {
				out[i].conds = append(append([]string{}, out[i].conds...), base...)
			}
			return out
		}
	}
	ph, ok := v.(*ssa.Phi)
	if !ok {
		return []valAlt{{v, Desc(v), AtomStrings(GuardsOfBlock(at))}}
	}
	var out []valAlt
	for j, e := range ph.Edges {
		pred := ph.Block().Preds[j]
		conds := append(AtomStrings(GuardsOfBlock(pred)), AtomStrings(edgeAtoms(pred, ph.Block()))...)
		if inner, isPhi := e.(*ssa.Phi); isPhi && inner != ph {
			out = append(out, valueAlts(inner, pred, depth+1)...)
			continue
		}
		if _, isCall := e.(*ssa.Call); isCall {
			for _, alt := range valueAlts(e, pred, depth+1) {
				alt.conds = append(append([]string{}, alt.conds...), conds...)
				out = append(out, alt)
			}
			continue
		}
		out = append(out, valAlt{e, Desc(e), conds})
	}
	return out
}

// joinParts: the strings.Join argument list is [<receiver or clone>.name, seg].
func joinParts(fn *ssa.Function, seg string) bool {
	var parts []string
	AllInstrs(fn, func(i ssa.Instruction) {
		if s2, ok := i.(*ssa.Store); ok {
			if ia, ok := s2.Addr.(*ssa.IndexAddr); ok {
				if idx, ok := ConstInt(ia.Index); ok {
					parts = append(parts, itoa(int(idx))+":"+Desc(s2.Val))
				}
			}
		}
	})
	sort.Strings(parts)
	return len(parts) == 2 && strings.HasSuffix(parts[0], ".name") && parts[1] == "1:"+seg
}

// c7Appends: appends onto slices owned by the receiver / an argument object (also through a local struct copy of it)
// are capacity-capped, so derived objects never share a backing-array tail with their parent and siblings.
func c7Appends(c *Ctx, rule string, fn *ssa.Function) {
	name := FStr(fn)
	if len(fn.Params) == 0 {
		return
	}
	var bad []string
	nApp := 0
	for _, f := range WithClosures(fn) {
		AllInstrs(f, func(i ssa.Instruction) {
			call, ok := i.(*ssa.Call)
			if !ok || CallBuiltin(call) != "append" {
				return
			}
			base := call.Call.Args[0]
			owner := ""
			for _, p := range fn.Params {
				if _, isSlice := types.Unalias(p.Type()).Underlying().(*types.Slice); isSlice && Strip(base) == ssa.Value(p) {
					continue // appending to a slice argument itself is the caller's business (variadic options etc.)
				}
				if ownedBy(base, p, 0) {
					owner = PN(p)
				}
			}
			if owner == "" {
				return
			}
			nApp++
			sl, isSlice := base.(*ssa.Slice)
			if !isSlice || sl.Max == nil || sl.High == nil || Desc(sl.Max) != Desc(sl.High) {
				bad = append(bad, "append("+Desc(base)+", …) onto a slice owned by "+owner+" without a capacity cap")
			}
		})
	}
	if nApp > 0 || len(bad) > 0 {
		c.Check(len(bad) == 0, rule, name, "capped-append", fn.Pos(), "appends onto slices owned by the receiver/argument object are capacity-capped (s[:n:n]), so parent and siblings never share a backing array tail: %v", bad)
	}
}

// ownedBy: v is (a slice of) a slice-typed field of the object p points to / is, read directly, through a type
// assertion of p, or through a local struct copy of *p whose field was not reassigned first.
func ownedBy(v ssa.Value, p *ssa.Parameter, depth int) bool {
	if depth > 6 {
		return false
	}
	switch x := v.(type) {
	case *ssa.Slice:
		return ownedBy(x.X, p, depth+1)
	case *ssa.UnOp:
		if x.Op != token.MUL {
			return false
		}
		fa, ok := x.X.(*ssa.FieldAddr)
		if !ok {
			return false
		}
		return objOf(fa.X, fa.Field, p, depth+1)
	case *ssa.Field:
		return objOf(x.X, x.Field, p, depth+1)
	case *ssa.ChangeType:
		return ownedBy(x.X, p, depth+1)
	case *ssa.TypeAssert:
		// a slice-typed value found inside the argument (or one of its elements): a tee or multi-syncer handed in
		return argOrElem(x.X, p)
	case *ssa.Extract:
		if ta, ok := x.Tuple.(*ssa.TypeAssert); ok && x.Index == 0 {
			return argOrElem(ta.X, p)
		}
	case *ssa.Phi:
		// a variable that holds the owner's slice on some path (all := co.context; if len(all) == 0 { all = make(…) })
		// - but not the accumulator of a loop that starts from a fresh slice and grows by its own appends
		for _, e := range x.Edges {
			if cl, isCall := e.(*ssa.Call); isCall && CallBuiltin(cl) == "append" {
				continue
			}
			if ownedBy(e, p, depth+1) {
				return true
			}
		}
	}
	return false
}

// argOrElem: v is the parameter p itself or an element of the slice p.
func argOrElem(v ssa.Value, p *ssa.Parameter) bool {
	v = Strip(v)
	if v == ssa.Value(p) {
		return true
	}
	if ld, ok := v.(*ssa.UnOp); ok && ld.Op == token.MUL {
		if ia, ok := ld.X.(*ssa.IndexAddr); ok {
			return Strip(ia.X) == ssa.Value(p)
		}
	}
	return false
}

func objOf(base ssa.Value, field int, p *ssa.Parameter, depth int) bool {
	base = Strip(base)
	if base == ssa.Value(p) {
		return true
	}
	switch b := base.(type) {
	case *ssa.TypeAssert:
		return Strip(b.X) == ssa.Value(p)
	case *ssa.Extract:
		if ta, ok := b.Tuple.(*ssa.TypeAssert); ok {
			return Strip(ta.X) == ssa.Value(p)
		}
	case *ssa.UnOp:
		if b.Op == token.MUL {
			return objOf(b.X, field, p, depth+1)
		}
	case *ssa.Alloc:
		// a local copy: *a = *q with q owned by p, and no store to this field of a
		if b.Referrers() == nil {
			return false
		}
		copied := false
		for _, r := range *b.Referrers() {
			switch y := r.(type) {
			case *ssa.Store:
				if y.Addr == ssa.Value(b) {
					if ld, ok := Strip(y.Val).(*ssa.UnOp); ok && ld.Op == token.MUL && objOf(ld.X, field, p, depth+1) {
						copied = true
					}
					if Strip(y.Val) == ssa.Value(p) {
						copied = true
					}
				}
			case *ssa.FieldAddr:
				if y.Field == field && y.Referrers() != nil {
					for _, r2 := range *y.Referrers() {
						if st, ok := r2.(*ssa.Store); ok && st.Addr == ssa.Value(y) {
							// the field was reassigned: if it was given a fresh slice the append is fine; if it was
							// given the result of this very append it is the statement under test
							if _, isCall := Strip(st.Val).(*ssa.Call); !isCall {
								return false
							}
							if mk, ok := Strip(st.Val).(*ssa.Call); ok && CallBuiltin(mk) != "append" {
								return false
							}
						}
					}
				}
			}
		}
		return copied
	}
	return false
}

// c7Eager: With (and the Fields option, which is With) evaluates its fields at derivation: the core is replaced by
// core.With(fields) right there. Only WithLazy defers.
func c7Eager(c *Ctx) {
	c.Rule("R7.10", "With and the Fields option evaluate their fields at derivation (core.With right there); the console encoder's Clone carries the context bytes", 3)
	for _, fn := range []*ssa.Function{c.Func(ZapPath, "Fields"), c.Method(ZapPath, "Logger", "With")} {
		if fn == nil {
			continue
		}
		eager, lazy := false, false
		region := Region(fn)
		// the option may be a named type whose apply method does the work: follow the types the function returns
		for _, r := range Returns(fn) {
			for _, rv := range RetVals(r) {
				v := rv
				if mi, ok := v.(*ssa.MakeInterface); ok {
					v = mi.X
				}
				if n, ok := types.Unalias(v.Type()).(*types.Named); ok && n.Obj().Pkg() != nil && n.Obj().Pkg().Path() == ZapPath {
					if m := c.Method(ZapPath, TNm(n.Obj()), "apply"); m != nil {
						region = append(region, Region(m)...)
					}
				}
			}
		}
		// ... and the options it builds and applies right there (With as WithOptions(Fields(…)))
		for _, f := range append([]*ssa.Function{}, region...) {
			for _, cl := range Calls(f) {
				sc := cl.Common().StaticCallee()
				if sc == nil || sc == fn || sc.Pkg == nil || sc.Pkg.Pkg.Path() != ZapPath || sc.Signature.Results().Len() != 1 || len(sc.Blocks) == 0 {
					continue
				}
				if TypeName(sc.Signature.Results().At(0).Type()) == "zap.Option" {
					region = append(region, Region(sc)...)
				}
			}
		}
		for _, f := range region {
			for _, g := range WithClosures(f) {
				for _, cl := range Calls(g) {
					if IsCallTo(cl, "(go.uber.org/zap/zapcore.Core).With") {
						eager = true
					}
					if IsCallTo(cl, CorePath+".NewLazyWith") {
						lazy = true
					}
				}
			}
		}
		c.Check(eager && !lazy, "R7.10", FStr(fn), "eager", fn.Pos(), "the fields are handed to core.With at derivation time (eager=%v, through NewLazyWith=%v): a later change of a mutable field value must not show up", eager, lazy)
	}
	c7CloneCarries(c, "R7.10")
}

// c7CloneCarries: by path exploration of jsonEncoder.Clone and consoleEncoder.Clone with the receiver holding one open
// namespace: the clone gets the accumulated context bytes, the same configuration, the same spacing and the same
// count of open namespaces - however the copy is written. A clone that forgets the count emits the context with its
// namespaces unclosed; one that forgets the bytes drops the fields of every ancestor logger.
func c7CloneCarries(c *Ctx, rule string) {
	for _, tn := range []string{"jsonEncoder", "consoleEncoder"} {
		fn := c.Method(CorePath, tn, "Clone")
		jn := c.Named(CorePath, "jsonEncoder")
		if !c.Anchor(rule, "zapcore."+tn+".Clone", fn != nil && jn != nil && len(fn.Params) == 1) {
			continue
		}
		rn := PN(fn.Params[0])
		resolve := func(st *ConcState, v ssa.Value) ssa.Value {
			for k := 0; k < 16 && v != nil; k++ {
				switch x := v.(type) {
				case *ssa.ChangeType:
					v = x.X
					continue
				case *ssa.MakeInterface:
					v = x.X
					continue
				}
				nx := st.Step(v)
				if nx == nil {
					break
				}
				v = nx
			}
			return v
		}
		isJSON := func(t types.Type) bool {
			n, _ := types.Unalias(deref(t)).(*types.Named)
			return n != nil && n.Obj() == jn.Obj()
		}
		fromRecv := func(d string) bool { return d == rn || strings.HasPrefix(d, rn+".") }
		seqs, trunc := ConcPaths(fn, ConcCfg{
			MaxDepth: 8,
			Conc: func(d string) (int64, bool) {
				if fromRecv(d) && (strings.HasSuffix(d, ".openNamespaces") || strings.HasSuffix(d, ".spaced")) {
					return 1, true
				}
				return 0, false
			},
			Inline:    func(h *ssa.Function) bool { return h.Pkg != nil && h.Pkg.Pkg.Path() == CorePath },
			InlineAny: func(h *ssa.Function) bool { r := RecvNamed(h); return r != nil && r.Obj() == jn.Obj() },
			Branch: func(cond ssa.Value, taken bool, st *ConcState) string {
				// is there any context to copy: len(enc.buf.Bytes()) / enc.buf.Len() compared with 0
				pol := taken
				for k := 0; k < 8; k++ {
					if u, ok := cond.(*ssa.UnOp); ok && u.Op == token.NOT {
						cond, pol = u.X, !pol
						continue
					}
					if nx := st.Step(cond); nx != nil {
						cond = nx
						continue
					}
					break
				}
				bo, ok := cond.(*ssa.BinOp)
				if !ok {
					return ""
				}
				if k, known := st.Int(bo.Y); !known || k != 0 {
					return ""
				}
				cl, ok := resolve(st, bo.X).(*ssa.Call)
				if !ok {
					return ""
				}
				var buf ssa.Value
				switch {
				case CallBuiltin(cl) == "len":
					if src, ok := resolve(st, cl.Call.Args[0]).(*ssa.Call); ok && IsCallTo(src, "(*go.uber.org/zap/buffer.Buffer).Bytes", "(*go.uber.org/zap/buffer.Buffer).String") {
						buf = Args(src)[0]
					}
				case IsCallTo(cl, "(*go.uber.org/zap/buffer.Buffer).Len"):
					buf = Args(cl)[0]
				}
				if buf == nil || !fromRecv(st.Desc(buf)) {
					return ""
				}
				empty := false
				switch bo.Op {
				case token.EQL, token.LEQ:
					empty = pol
				case token.NEQ, token.GTR:
					empty = !pol
				default:
					return ""
				}
				if empty {
					return "context-empty"
				}
				return ""
			},
			Event: func(in ssa.Instruction, st *ConcState) string {
				switch x := in.(type) {
				case *ssa.Call:
					if IsCallTo(x, "(*go.uber.org/zap/buffer.Buffer).Write", "(*go.uber.org/zap/buffer.Buffer).AppendBytes", "(*go.uber.org/zap/buffer.Buffer).AppendString", "(*go.uber.org/zap/buffer.Buffer).WriteString") {
						a := Args(x)
						if src, ok := resolve(st, a[1]).(*ssa.Call); ok && IsCallTo(src, "(*go.uber.org/zap/buffer.Buffer).Bytes", "(*go.uber.org/zap/buffer.Buffer).String") {
							if fromRecv(st.Desc(Args(src)[0])) && !fromRecv(st.Desc(a[0])) {
								return "copy-context"
							}
						}
					}
				case *ssa.Return:
					r := resolve(st, x.Results[0])
					var enc ssa.Value
					switch {
					case r != nil && isJSON(r.Type()):
						enc = r
					default:
						// a struct value holding the JSON encoder
						if _, _, v := st.FieldOf(r, "jsonEncoder"); v != nil {
							enc = resolve(st, v)
						} else if sf := structValueFields(x.Results[0]); sf["jsonEncoder"] != "" {
							return "ret(?" + sf["jsonEncoder"] + ")"
						}
					}
					if enc == nil {
						return "ret(?" + st.Desc(x.Results[0]) + ")"
					}
					out := "ret("
					for _, f := range []string{"openNamespaces", "spaced"} {
						if k, known, _ := st.FieldOf(enc, f); known {
							out += f + "=" + itoa(int(k)) + ","
						} else {
							out += f + "=?,"
						}
					}
					if _, _, v := st.FieldOf(enc, "EncoderConfig"); v != nil && fromRecv(st.Desc(v)) {
						out += "config=same"
					} else if src := st.FieldFrom(enc, "EncoderConfig"); src != "" && fromRecv(src) {
						// the clone is a whole copy of the receiver (*clone = *enc)
						out += "config=same"
					} else {
						out += "config=?"
					}
					return out + ")"
				}
				return ""
			},
		})
		if trunc || len(seqs) == 0 {
			c.Und(rule, FStr(fn), "clone-carries-context", fn.Pos(), "path exploration incomplete (%d sequences)", len(seqs))
			continue
		}
		var bad []string
		for _, sq := range seqs {
			if sq != "copy-context ; ret(openNamespaces=1,spaced=1,config=same)" && sq != "context-empty ; ret(openNamespaces=1,spaced=1,config=same)" {
				bad = append(bad, sq)
			}
		}
		c.Check(len(bad) == 0, rule, FStr(fn), "clone-carries-context", fn.Pos(), "on every path the clone receives the accumulated context bytes, the receiver's configuration and spacing and its count of open namespaces (explored with one namespace open): %v", bad)
	}
}

// c7AppendsAll: the same discipline for every function of the analysed packages, helper-transparent: an append onto
// a slice owned by the receiver / an argument object (directly, or by handing the slice to a function that appends
// onto that parameter) must be capacity-capped, unless the result goes straight back into the very field it was read
// from (the owner growing its own slice). Otherwise two values built from the same parent - two derived
// loggers/handlers, or two emitted entries - share one backing-array tail and the later one overwrites the earlier.
func c7AppendsAll(c *Ctx, rule string) {
	type key struct {
		f *ssa.Function
		i int
	}
	capped := func(base ssa.Value) bool {
		sl, ok := base.(*ssa.Slice)
		return ok && sl.Max != nil && sl.High != nil && Desc(sl.Max) == Desc(sl.High)
	}
	// the field the slice was read from (through re-slicing)
	srcField := func(v ssa.Value) *ssa.FieldAddr {
		for k := 0; k < 6; k++ {
			switch x := v.(type) {
			case *ssa.Slice:
				v = x.X
				continue
			case *ssa.UnOp:
				if x.Op == token.MUL {
					fa, _ := x.X.(*ssa.FieldAddr)
					return fa
				}
			}
			break
		}
		return nil
	}
	selfUpdate := func(call *ssa.Call, base ssa.Value) bool {
		fa := srcField(base)
		if fa == nil || call.Referrers() == nil {
			return false
		}
		n := 0
		for _, r := range *call.Referrers() {
			switch y := r.(type) {
			case *ssa.DebugRef:
			case *ssa.Store:
				fb, ok := y.Addr.(*ssa.FieldAddr)
				if !ok || y.Val != ssa.Value(call) || fb.Field != fa.Field || Desc(fb.X) != Desc(fa.X) {
					return false
				}
				n++
			default:
				return false
			}
		}
		return n > 0
	}
	paramIndex := func(f *ssa.Function, v ssa.Value) int {
		v = Strip(v)
		for i, p := range f.Params {
			if v == ssa.Value(p) {
				if _, isSlice := types.Unalias(p.Type()).Underlying().(*types.Slice); isSlice {
					return i
				}
			}
		}
		return -1
	}
	var funcs []*ssa.Function
	c.EachRootFunc(func(fn *ssa.Function) { funcs = append(funcs, fn) })
	appendsOnto := map[key]bool{}
	// what a call instruction appends onto: (base value, description) pairs
	type site struct {
		base ssa.Value
		what string
		call *ssa.Call
	}
	sitesIn := func(f *ssa.Function) []site {
		var out []site
		AllInstrs(f, func(i ssa.Instruction) {
			call, ok := i.(*ssa.Call)
			if !ok {
				return
			}
			if CallBuiltin(call) == "append" && len(call.Call.Args) == 2 {
				out = append(out, site{call.Call.Args[0], "append", call})
				return
			}
			if sc := call.Call.StaticCallee(); sc != nil {
				for ai, a := range call.Call.Args {
					if appendsOnto[key{sc, ai}] {
						out = append(out, site{a, FNm(sc) + " (which appends onto this argument)", call})
					}
				}
			}
		})
		return out
	}
	for changed := true; changed; {
		changed = false
		for _, f := range funcs {
			for _, s := range sitesIn(f) {
				if capped(s.base) {
					continue
				}
				b := s.base
				if sl, ok := b.(*ssa.Slice); ok {
					b = sl.X
				}
				if pi := paramIndex(f, b); pi >= 0 && !appendsOnto[key{f, pi}] {
					appendsOnto[key{f, pi}] = true
					changed = true
				}
			}
		}
	}
	n := 0
	for _, f := range funcs {
		if len(f.Params) == 0 {
			continue
		}
		top := f
		for top.Parent() != nil {
			top = top.Parent()
		}
		var bad []string
		for _, s := range sitesIn(f) {
			// an append onto a shortened re-slice of a slice ARGUMENT (fields[:0], args[:k]) always lands in the
			// caller's backing array: the caller's elements are overwritten (in-place filtering of an argument)
			if s.what == "append" && f == top {
				// through the loop variable that accumulates the result (kept := fields[:0]; kept = append(kept, f))
				var short *ssa.Slice
				seen := map[ssa.Value]bool{}
				var find func(v ssa.Value, d int)
				find = func(v ssa.Value, d int) {
					if v == nil || seen[v] || d > 4 || short != nil {
						return
					}
					seen[v] = true
					switch x := v.(type) {
					case *ssa.Slice:
						if x.Max == nil && x.High != nil && paramIndex(top, x.X) >= 0 {
							short = x
						}
					case *ssa.Phi:
						for _, e := range x.Edges {
							find(e, d+1)
						}
					}
				}
				find(s.base, 0)
				if short != nil {
					n++
					bad = append(bad, "append onto "+Desc(short)+", a shortened re-slice of the argument "+top.Params[paramIndex(top, short.X)].Name()+": the elements are written into the caller's own array")
					continue
				}
			}
			owner := ""
			for _, p := range top.Params {
				if ownedBy(s.base, p, 0) {
					owner = PN(p)
				}
			}
			if owner == "" {
				continue
			}
			n++
			if capped(s.base) || (s.what == "append" && selfUpdate(s.call, s.base)) {
				continue
			}
			bad = append(bad, s.what+" onto "+Desc(s.base)+", a slice owned by "+owner+", without a capacity cap and not as that field's own growth")
		}
		if len(bad) > 0 {
			c.Bad(rule, FuncKey(f), "capped-append", f.Pos(), "values built from a parent never share a backing-array tail with it or each other: %v", bad)
		}
	}
	c.Check(n >= 5, rule, "all functions", "capped-append/sites", token.NoPos, "%d appends onto slices owned by a receiver/argument object examined in all packages (each capped, or the owner's own growth)", n)
}

// c7TeeWith: by bounded concrete exploration of multiCore.With on a tee of two branches: the result is a new slice
// whose element i is branch[i].With(fields) - for every i, whatever the branch currently enables (a branch that is
// muted while loggers are derived must still carry their context when it is enabled later).
func c7TeeWith(c *Ctx, rule string) {
	mw := c.Method(CorePath, "multiCore", "With")
	if !c.Anchor(rule, "zapcore.multiCore.With", mw != nil && len(mw.Params) == 2) {
		return
	}
	N := depth(2, 3)
	recv, fields := mw.Params[0], mw.Params[1]
	resolve := func(st *ConcState, v ssa.Value) ssa.Value {
		for k := 0; k < 16 && v != nil; k++ {
			switch x := v.(type) {
			case *ssa.ChangeType:
				v = x.X
				continue
			case *ssa.MakeInterface:
				v = x.X
				continue
			}
			nx := st.Step(v)
			if nx == nil {
				break
			}
			v = nx
		}
		return v
	}
	// branchIndex: v is branch[i] of the receiver
	branchIndex := func(st *ConcState, v ssa.Value) (int64, bool) {
		u, ok := resolve(st, v).(*ssa.UnOp)
		if !ok || u.Op != token.MUL {
			return 0, false
		}
		ia, ok := u.X.(*ssa.IndexAddr)
		if !ok || resolve(st, ia.X) != ssa.Value(recv) {
			return 0, false
		}
		return st.Int(ia.Index)
	}
	describe := func(st *ConcState, v ssa.Value) string {
		r := resolve(st, v)
		if cl, ok := r.(*ssa.Call); ok && cl.Call.IsInvoke() && FNm(cl.Call.Method) == "With" {
			if i, ok := branchIndex(st, cl.Call.Value); ok && len(cl.Call.Args) == 1 && resolve(st, cl.Call.Args[0]) == ssa.Value(fields) {
				return "with(" + itoa(int(i)) + ")"
			}
			return "with(?)"
		}
		if i, ok := branchIndex(st, v); ok {
			return "branch(" + itoa(int(i)) + ") itself"
		}
		return "other(" + st.Desc(v) + ")"
	}
	cut := 0
	seqs, trunc := ConcPaths(mw, ConcCfg{
		MaxIter: N + 1, Cut: &cut,
		SliceLen: func(p *ssa.Parameter) (int64, bool) { return int64(N), p == recv },
		Event: func(in ssa.Instruction, st *ConcState) string {
			switch x := in.(type) {
			case *ssa.Store:
				ia, ok := x.Addr.(*ssa.IndexAddr)
				if !ok {
					return ""
				}
				if _, isCore := types.Unalias(x.Val.Type()).Underlying().(*types.Interface); !isCore {
					return ""
				}
				if _, isArr := types.Unalias(deref(ia.X.Type())).Underlying().(*types.Array); isArr {
					return "" // the backing array of a variadic append
				}
				if resolve(st, ia.X) == ssa.Value(recv) {
					return "store-into-parent"
				}
				j := "?"
				if k, ok := st.Int(ia.Index); ok {
					j = itoa(int(k))
				}
				return "slot(" + j + ")=" + describe(st, x.Val)
			case *ssa.Call:
				if CallBuiltin(x) == "append" {
					if sl, ok := types.Unalias(x.Type()).Underlying().(*types.Slice); ok {
						if _, isCore := types.Unalias(sl.Elem()).Underlying().(*types.Interface); isCore {
							_, elems := appendParts(x)
							var out []string
							for _, e := range elems {
								out = append(out, describe(st, e))
							}
							return "app=" + strings.Join(out, ",")
						}
					}
				}
			case *ssa.Return:
				r := resolve(st, x.Results[0])
				if r == ssa.Value(recv) {
					return "ret(receiver)"
				}
				return "ret(new)"
			}
			return ""
		},
	})
	if trunc || len(seqs) == 0 {
		c.Und(rule, FStr(mw), "every-branch-derived", mw.Pos(), "path exploration incomplete (%d sequences)", len(seqs))
		return
	}
	var bad []string
	for _, sq := range seqs {
		var got []string
		ok := true
		for _, t := range strings.Split(sq, " ; ") {
			switch {
			case strings.HasPrefix(t, "slot("):
				// slot(j)=with(i): i == j
				j := t[5:strings.Index(t, ")")]
				if t != "slot("+j+")=with("+j+")" {
					ok = false
				}
				got = append(got, j)
			case strings.HasPrefix(t, "app="):
				if t != "app=with("+itoa(len(got))+")" {
					ok = false
				}
				got = append(got, itoa(len(got)))
			case t == "store-into-parent" || t == "ret(receiver)":
				ok = false
			}
		}
		wantSlots := []string{"0", "1", "2", "3"}[:N]
		if ok && strings.Join(got, ",") != strings.Join(wantSlots, ",") {
			ok = false
		}
		if !ok {
			bad = append(bad, sq)
		}
	}
	if len(bad) > 2 {
		bad = append(bad[:2:2], "… "+itoa(len(bad)-2)+" more")
	}
	c.Check(len(bad) == 0, rule, FStr(mw), "every-branch-derived", mw.Pos(), "over %d paths on a two-branch tee: the result is a new slice holding branch[0].With(fields), branch[1].With(fields) - on every path, whatever the branches currently enable: %v", len(seqs), bad)
}

// lazyMutexOnce: the other way to evaluate exactly once - a method of lazyWithCore that holds a mutex of the object for
// its whole run and is guarded by a flag it sets itself: by path exploration with the flag fixed to each value, with
// the flag set the method does nothing but lock and unlock; with the flag clear it sets the flag, evaluates the
// wrapped core's With on the stored fields exactly once and publishes the result - all between Lock and the deferred
// Unlock. The flag is stored nowhere else. Equivalent to sync.Once (which also marks "done" when the function panics).
// Returns the method, the flag's name and the published field's name.
var lazyMutexOnceMemo struct {
	prog        *Program
	fn          *ssa.Function
	flag, field string
}

func lazyMutexOnce(c *Ctx) (*ssa.Function, string, string) {
	if lazyMutexOnceMemo.prog == c.Program {
		return lazyMutexOnceMemo.fn, lazyMutexOnceMemo.flag, lazyMutexOnceMemo.field
	}
	lazyMutexOnceMemo.prog, lazyMutexOnceMemo.fn, lazyMutexOnceMemo.flag, lazyMutexOnceMemo.field = c.Program, nil, "", ""
	lz := c.Named(CorePath, "lazyWithCore")
	if lz == nil {
		return nil, "", ""
	}
	st, _ := lz.Underlying().(*types.Struct)
	if st == nil {
		return nil, "", ""
	}
	var flags []string
	for i := 0; i < st.NumFields(); i++ {
		if b, ok := types.Unalias(st.Field(i).Type()).Underlying().(*types.Basic); ok && b.Kind() == types.Bool {
			flags = append(flags, FN(st.Field(i)))
		}
	}
	var cands []*ssa.Function
	c.EachRootFunc(func(fn *ssa.Function) {
		if rn := RecvNamed(fn); rn == nil || rn.Obj() != lz.Obj() || fn.Parent() != nil || len(fn.Params) != 1 {
			return
		}
		for _, cl := range Calls(fn) {
			if IsCallTo(cl, "(*sync.Mutex).Lock") {
				if _, isF := fieldOfNamed(cl.Common().Args[0], lz); isF {
					cands = append(cands, fn)
				}
			}
		}
	})
	for _, fn := range cands {
		rn := PN(fn.Params[0])
		for _, flag := range flags {
			pub := ""
			explore := func(fv int64) ([]string, bool) {
				return ConcPaths(fn, ConcCfg{
					Conc: func(d string) (int64, bool) {
						if d == rn+"."+flag {
							return fv, true
						}
						return 0, false
					},
					DeferRun: func(d *ssa.Defer, st *ConcState) string {
						if f := CalleeFunc(d); f != nil && f.FullName() == "(*sync.Mutex).Unlock" {
							return "unlock"
						}
						return "deferred"
					},
					Event: func(in ssa.Instruction, st *ConcState) string {
						switch x := in.(type) {
						case *ssa.Call:
							if IsCallTo(x, "(*sync.Mutex).Lock") {
								return "lock"
							}
							if IsCallTo(x, "(*sync.Mutex).Unlock") {
								return "unlock"
							}
							cc := x.Common()
							if cc.IsInvoke() && FNm(cc.Method) == "With" && len(cc.Args) == 1 {
								_, f1 := fieldOfNamed(cc.Value, lz)
								_, f2 := fieldOfNamed(cc.Args[0], lz)
								if f1 && f2 {
									return "eval"
								}
							}
							return "call"
						case *ssa.Store:
							if fa, ok := x.Addr.(*ssa.FieldAddr); ok {
								if n, isF := fieldOfNamed(fa, lz); isF {
									if n == flag {
										if k, known := st.Int(x.Val); known && k == 1 {
											return "set-flag"
										}
										return "store(" + n + ")"
									}
									pub = n
									return "pub"
								}
							}
						case *ssa.Return:
							return "ret"
						}
						return ""
					},
				})
			}
			set, t1 := explore(1)
			clr, t0 := explore(0)
			if t1 || t0 || len(set) == 0 || len(clr) == 0 {
				continue
			}
			ok := true
			for _, sq := range set {
				if sq != "lock ; unlock ; ret" {
					ok = false
				}
			}
			for _, sq := range clr {
				if sq != "lock ; set-flag ; eval ; pub ; unlock ; ret" && sq != "lock ; eval ; pub ; set-flag ; unlock ; ret" {
					ok = false
				}
			}
			if !ok || pub == "" {
				continue
			}
			// the flag and the published field are stored by this method only
			elsewhere := false
			c.EachRootFunc(func(g *ssa.Function) {
				if g == fn {
					return
				}
				for _, fs := range FieldStoresOf(g, lz) {
					if fs.Field == flag || fs.Field == pub {
						elsewhere = true
					}
				}
			})
			if elsewhere {
				continue
			}
			lazyMutexOnceMemo.fn, lazyMutexOnceMemo.flag, lazyMutexOnceMemo.field = fn, flag, pub
			return fn, flag, pub
		}
	}
	return nil, "", ""
}

// c7LazyMutex: R7.6 for the mutex-and-flag form of the one-time evaluation (lazyMutexOnce has decided the method itself).
func c7LazyMutex(c *Ctx, lz *types.Named, init *ssa.Function, flag, pubField string) {
	c.OK("R7.6", FStr(init), "evaluates-once", init.Pos(), "holds the object's mutex for its whole run; with %s set it does nothing, with %s clear it sets it, evaluates originalCore.With(fields) once and publishes %s (both stored nowhere else): exactly one evaluation whatever the number of first users, the others wait for it", flag, flag, pubField)
	for _, m := range []string{"With", "Check", "Write", "Sync"} {
		fn := c.Method(CorePath, "lazyWithCore", m)
		if !c.Anchor("R7.6", "zapcore.lazyWithCore."+m, fn != nil) {
			continue
		}
		seqs, trunc := ConcPaths(fn, ConcCfg{
			Inline: func(h *ssa.Function) bool { return h != init },
			Event: func(in ssa.Instruction, st *ConcState) string {
				switch x := in.(type) {
				case *ssa.Call:
					if x.Call.StaticCallee() == init {
						return "once"
					}
					if x.Call.IsInvoke() && FNm(x.Call.Method) == m {
						d := st.Desc(x.Call.Value)
						if i := strings.LastIndex(d, "."); i >= 0 && d[i+1:] == pubField {
							return "deleg-derived"
						}
						return "deleg:" + d
					}
				case *ssa.Return:
					return "ret"
				}
				return ""
			},
		})
		var bad []string
		for _, sq := range seqs {
			if sq != "once ; deleg-derived ; ret" {
				bad = append(bad, sq)
			}
		}
		c.Check(!trunc && len(seqs) > 0 && len(bad) == 0, "R7.6", FStr(fn), "init-before-delegation", fn.Pos(), "%s forces the one-time evaluation on every path and then delegates, once, to the derived core it published (a bypass gives parent and child different views of a mutable field); offending paths: %v", m, bad)
	}
}
