package zv

import (
	"go/token"
	"go/types"
	"sort"
	"strings"

	"golang.org/x/tools/go/ssa"
)

// Rules added in round 10 (each found missing by a regression a fresh sub-agent wrote).

// c20TextMethods (R20.5): encoding/json, yaml and flag find MarshalText / UnmarshalText through the method sets: the
// VALUE types Level and AtomicLevel must offer MarshalText (a pointer receiver would make json.Marshal of a struct
// holding an AtomicLevel by value emit {} - which does not read back), the pointer types UnmarshalText.
func c20TextMethods(c *Ctx, rule string) {
	for _, t := range []struct{ pkg, name string }{{CorePath, "Level"}, {ZapPath, "AtomicLevel"}} {
		n := c.Named(t.pkg, t.name)
		if !c.Anchor(rule, t.pkg+"."+t.name, n != nil) {
			continue
		}
		has := func(ms *types.MethodSet, m string, params, results int) bool {
			for i := 0; i < ms.Len(); i++ {
				f, ok := ms.At(i).Obj().(*types.Func)
				if !ok || f.Name() != m {
					continue
				}
				sig := f.Type().(*types.Signature)
				return sig.Params().Len() == params && sig.Results().Len() == results
			}
			return false
		}
		val := types.NewMethodSet(n)
		ptr := types.NewMethodSet(types.NewPointer(n))
		c.Check(has(val, "MarshalText", 0, 2), rule, TypeName(n), "value-marshals", n.Obj().Pos(), "%s values (not only pointers to them) implement encoding.TextMarshaler: a level held by value in a struct or map is written as its name by json/yaml", t.name)
		c.Check(has(ptr, "UnmarshalText", 1, 1), rule, TypeName(n), "pointer-unmarshals", n.Obj().Pos(), "*%s implements encoding.TextUnmarshaler", t.name)
	}
}

// c17EntryPoints (R17.6): the line protocol is decided for the three entry points Write, Sync and Close. Any other exported
// method of the writer that reaches its buffer or its log function is a sibling entry point (io.Copy prefers ReadFrom,
// io.WriteString prefers WriteString) whose chunks the decided protocol knows nothing about.
func c17EntryPoints(c *Ctx, rule string) {
	n := c.Named("go.uber.org/zap/zapio", "Writer")
	if !c.Anchor(rule, "zapio.Writer", n != nil) {
		return
	}
	known := map[string]bool{"Write": true, "Sync": true, "Close": true}
	var extra []string
	seen := 0
	ms := c.SSA.MethodSets.MethodSet(types.NewPointer(n))
	for i := 0; i < ms.Len(); i++ {
		f := c.SSA.MethodValue(ms.At(i))
		if f == nil || f.Object() == nil || !f.Object().Exported() {
			continue
		}
		seen++
		if known[f.Name()] {
			continue
		}
		// it feeds or alters the line state: stores into the writer, calls one of its methods, or hands its buffer on
		// (a getter that only reads a field is not an entry point)
		touches := false
		isW := func(t types.Type) bool {
			nn, _ := types.Unalias(deref(t)).(*types.Named)
			return nn != nil && nn.Obj() == n.Obj()
		}
		for _, g := range Region(f) {
			AllInstrs(g, func(in ssa.Instruction) {
				switch x := in.(type) {
				case *ssa.Store:
					if fa, ok := x.Addr.(*ssa.FieldAddr); ok && isW(fa.X.Type()) {
						touches = true
					}
				case ssa.CallInstruction:
					if sc := x.Common().StaticCallee(); sc != nil {
						if rn := RecvNamed(sc); rn != nil && rn.Obj() == n.Obj() {
							touches = true
						}
					}
					for _, a := range x.Common().Args {
						if fa, ok := a.(*ssa.FieldAddr); ok && isW(fa.X.Type()) {
							touches = true
						}
					}
				}
			})
		}
		if touches {
			extra = append(extra, f.Name())
		}
	}
	sort.Strings(extra)
	c.Check(len(extra) == 0 && seen >= 3, rule, TypeName(n), "entry-points", n.Obj().Pos(), "the writer's state is reached through Write, Sync and Close only (the entry points whose chunking is decided); further exported methods touching it: %v", extra)
}

// recoversIn: the deferred calls of fn whose function calls recover() itself.
func recoversIn(fn *ssa.Function) []*ssa.Defer {
	var out []*ssa.Defer
	AllInstrs(fn, func(i ssa.Instruction) {
		df, ok := i.(*ssa.Defer)
		if !ok {
			return
		}
		var g *ssa.Function
		if mk, ok := df.Call.Value.(*ssa.MakeClosure); ok {
			g, _ = mk.Fn.(*ssa.Function)
		} else {
			g = df.Call.StaticCallee()
		}
		if g == nil {
			return
		}
		rec := false
		AllInstrs(g, func(j ssa.Instruction) {
			if cl, ok := j.(*ssa.Call); ok && CallBuiltin(cl) == "recover" {
				rec = true
			}
		})
		if rec {
			out = append(out, df)
		}
	})
	return out
}

// c13NoSwallowedPanic (R13.8): a Write that recovers from a panic of what it writes to returns whatever its results held
// at that moment - (0, nil) for named results not yet assigned: a short count without an error.
func c13NoSwallowedPanic(c *Ctx, rule string, writers []*ssa.Function) {
	n := 0
	for _, w := range writers {
		if w == nil {
			continue
		}
		n++
		var rs []*ssa.Defer
		for _, df := range recoversIn(w) {
			// a handler that turns the panic into the Write's error is within the contract (a short count WITH an error)
			setsErr := false
			if mk, ok := df.Call.Value.(*ssa.MakeClosure); ok {
				if g, ok := mk.Fn.(*ssa.Function); ok {
					AllInstrs(g, func(in ssa.Instruction) {
						st, isSt := in.(*ssa.Store)
						if !isSt || IsNilConst(st.Val) {
							return
						}
						if fv, isFV := st.Addr.(*ssa.FreeVar); isFV && TStr(deref(fv.Type())) == "error" {
							setsErr = true
						}
					})
				}
			}
			if !setsErr {
				rs = append(rs, df)
			}
		}
		c.Check(len(rs) == 0, rule, FStr(w), "no-recover", w.Pos(), "Write does not swallow panics of its destination (a recovered panic that is not turned into the returned error makes Write return its results as they stand: a count below len(p) with a nil error)")
	}
	c.Check(n >= 3, rule, "writers", "sites", token.NoPos, "%d Write methods examined", n)
}

// c6AfterInstalls (R6.13): CheckedEntry.After installs the hook it is given whatever was there before: the Logger
// registers its terminal action (panic, exit) last, and a hook a core registered earlier must not keep it out.
func c6AfterInstalls(c *Ctx, rule string) {
	fn := c.Method(CorePath, "CheckedEntry", "After")
	if !c.Anchor(rule, "zapcore.CheckedEntry.After", fn != nil && len(fn.Params) == 3) {
		return
	}
	rc := PN(fn.Params[0])
	var stores []*ssa.Store
	AllInstrs(fn, func(in ssa.Instruction) {
		if st, ok := in.(*ssa.Store); ok {
			if fa, ok := st.Addr.(*ssa.FieldAddr); ok && FN(fieldVar(fa)) == "after" {
				stores = append(stores, st)
			}
		}
	})
	ok := len(stores) == 1
	why := ""
	if ok {
		st := stores[0]
		if Strip(st.Val) != ssa.Value(fn.Params[2]) {
			ok, why = false, "stores "+Desc(st.Val)
		}
		for _, g := range AtomStrings(Guards(st)) {
			if g != rc+" != nil" {
				ok, why = false, why+" under "+g
			}
		}
	} else {
		why = itoa(len(stores)) + " stores to after"
	}
	c.Check(ok, rule, FStr(fn), "installs-unconditionally", fn.Pos(), "After(ent, hook) stores hook into the entry's after slot whenever the entry exists, replacing what was there (the Logger's panic/exit action is registered last and must win) %s", why)
}

// fieldVar: the struct field a FieldAddr selects.
func fieldVar(fa *ssa.FieldAddr) *types.Var {
	st, _ := types.Unalias(deref(fa.X.Type())).Underlying().(*types.Struct)
	if st == nil || fa.Field >= st.NumFields() {
		return nil
	}
	return st.Field(fa.Field)
}

// c7LazyNeverEager (R7.15): WithLazy defers the evaluation of EVERY field: it never hands the fields to With (of the
// logger or of the core) itself - only the lazily derived core does, at first use.
func c7LazyNeverEager(c *Ctx, rule string) {
	fn := c.Method(ZapPath, "Logger", "WithLazy")
	if !c.Anchor(rule, "zap.Logger.WithLazy", fn != nil) {
		return
	}
	var eager []string
	lazy := 0
	var all []*ssa.Function
	var addFn func(g *ssa.Function)
	seenFn := map[*ssa.Function]bool{}
	addFn = func(g *ssa.Function) {
		if g == nil || seenFn[g] || len(seenFn) > 64 {
			return
		}
		seenFn[g] = true
		all = append(all, g)
		for _, a := range g.AnonFuncs {
			addFn(a)
		}
		// functions handed on as values (a method value lazyFields(fields).wrap, a named function) and the module
		// functions called
		AllInstrs(g, func(in ssa.Instruction) {
			for _, op := range in.Operands(nil) {
				if op == nil || *op == nil {
					continue
				}
				switch x := (*op).(type) {
				case *ssa.Function:
					if x.Synthetic != "" || curProgRoot(x) {
						addFn(x)
					}
				case *ssa.MakeClosure:
					if f, ok := x.Fn.(*ssa.Function); ok {
						addFn(f)
					}
				}
			}
		})
	}
	addFn(fn)
	for _, g := range all {
		for _, cl := range Calls(g) {
			f := CalleeFunc(cl)
			if f == nil {
				continue
			}
			switch {
			case FNm(f) == "With" && f.Pkg() != nil && strings.HasPrefix(f.Pkg().Path(), ZapPath):
				eager = append(eager, FuncKey(g)+": "+f.FullName())
			case FNm(f) == "NewLazyWith":
				lazy++
			}
		}
	}
	c.Check(len(eager) == 0 && lazy > 0, rule, FStr(fn), "never-eager", fn.Pos(), "WithLazy builds the lazily derived core (NewLazyWith, %d sites) and calls no With itself - a field evaluated at derivation would show the value it had then, not at first use: %v", lazy, eager)
}

// c10StringersContained (R10.10): every element of a zap.Stringers array is converted by the conversion that contains a
// panicking String() and reports it (stringerValue) - never by fmt, which renders the panic into the value and
// reports nothing.
func c10StringersContained(c *Ctx, rule string) {
	var ms []*ssa.Function
	// the containing conversions of the package: functions that call String() on a Stringer under a deferred recover
	contains := map[*ssa.Function]bool{}
	c.EachRootFunc(func(fn *ssa.Function) {
		if fn.Pkg == nil || fn.Pkg.Pkg.Path() != ZapPath || fn.Parent() != nil {
			return
		}
		if FNm(fn) == "MarshalLogArray" {
			if rn := RecvNamed(fn); rn != nil && strings.HasPrefix(TNm(rn.Obj()), "stringers") {
				ms = append(ms, fn)
			}
		}
		if len(recoversIn(fn)) > 0 {
			for _, cl := range Calls(fn) {
				if cc := cl.Common(); cc.IsInvoke() && cc.Method.Name() == "String" {
					contains[fn] = true
				}
			}
		}
	})
	if !c.Anchor(rule, "zap.stringers.MarshalLogArray", len(ms) > 0) {
		return
	}
	for _, m := range ms {
		via, bare := false, []string{}
		for _, g := range Region(m) {
			for _, cl := range Calls(g) {
				if sc := StaticCallee(cl); sc != nil && contains[sc] {
					via = true
				}
				if f := CalleeFunc(cl); f != nil && f.Pkg() != nil && f.Pkg().Path() == "fmt" && strings.HasPrefix(f.Name(), "Sprint") {
					bare = append(bare, "fmt."+f.Name())
				}
				if cc := cl.Common(); cc.IsInvoke() && cc.Method.Name() == "String" && !contains[g] {
					bare = append(bare, "String() called outside a containing conversion")
				}
			}
		}
		c.Check(via && len(bare) == 0, rule, FStr(m), "contained-conversion", m.Pos(), "each element goes through a conversion that recovers a panicking String() (and whose error the array reports); no fmt.Sprint*/bare String() on an element: %v", bare)
	}
}

// c5HooksCopied (R5.18): RegisterHooks keeps a copy of the hooks it is given: the caller's slice (zap.Hooks(hs...) hands
// its own) may be rewritten afterwards, and the hooks of a core already built must not change with it.
func c5HooksCopied(c *Ctx, rule string) {
	fn := c.Func(CorePath, "RegisterHooks")
	if !c.Anchor(rule, "zapcore.RegisterHooks", fn != nil && len(fn.Params) == 2) {
		return
	}
	c.Check(!retainsParam(fn.Params[1], 0), rule, FStr(fn), "keeps-a-copy", fn.Pos(), "the variadic hooks slice is copied, not kept (a caller passing hs... may reuse its slice)")
}

// c15DefaultsBeforeOptions (R15.9): the slog handler's constructor sets its defaults BEFORE it applies the options and
// stores nothing into the handler afterwards: a default applied after the options, to a field that "looks unset",
// overrides a user who asked for the zero value (AddStacktraceAt(slog.LevelInfo), slog.LevelInfo == 0).
func c15DefaultsBeforeOptions(c *Ctx, rule string) {
	fn := c.Func(SlogPath, "NewHandler")
	hn := c.Named(SlogPath, "Handler")
	if !c.Anchor(rule, "zapslog.NewHandler", fn != nil && hn != nil) {
		return
	}
	var applies []ssa.Instruction
	for _, cl := range Calls(fn) {
		if cc := cl.Common(); cc.IsInvoke() && cc.Method.Name() == "apply" {
			applies = append(applies, cl)
		}
	}
	// the fields an option can set: those stored by the functions of the package other than the constructor (the option
	// literals and apply methods); a late store into any other field (the core, say) overrides no option
	optionField := map[string]bool{}
	c.EachRootFunc(func(g *ssa.Function) {
		if g == fn || g.Pkg == nil || g.Pkg.Pkg.Path() != SlogPath {
			return
		}
		for _, fs := range FieldStoresOf(g, hn) {
			if _, isParam := Root(fs.Addr.X).(*ssa.Parameter); isParam && (g.Parent() != nil || FNm(g) == "apply") {
				optionField[fs.Field] = true
			}
		}
	})
	storesHandler := func(g *ssa.Function) bool {
		found := false
		for _, fs := range FieldStoresOf(g, hn) {
			if optionField[fs.Field] {
				found = true
			}
		}
		return found
	}
	var late []string
	for _, ap := range applies {
		AllInstrs(fn, func(in ssa.Instruction) {
			if in == ap || !ExistsPath(fn, ap, func(i ssa.Instruction) bool { return i == in }, nil) {
				return
			}
			switch x := in.(type) {
			case *ssa.Store:
				if fa, ok := x.Addr.(*ssa.FieldAddr); ok {
					if nn, _ := types.Unalias(deref(fa.X.Type())).(*types.Named); nn != nil && nn.Obj() == hn.Obj() && optionField[fieldName(fa.X.Type(), fa.Field)] {
						late = append(late, "store to "+Desc(x.Addr))
					}
				}
			case *ssa.Call:
				if sc := x.Call.StaticCallee(); sc != nil && curProgRoot(sc) && storesHandler(sc) {
					late = append(late, "call of "+FNm(sc))
				}
			}
		})
	}
	c.Check(len(applies) > 0 && len(late) == 0 && len(optionField) > 0, rule, FStr(fn), "defaults-before-options", fn.Pos(), "no field an option can set is stored into once an option has been applied (a default set afterwards cannot tell \"unset\" from the zero value the user asked for): %v", uniqSorted(late))
}
