package zv

import (
	"go/types"
	"sort"
	"strings"

	"golang.org/x/tools/go/ssa"
)

// ---------------------------------------------------------------------------
// loops

// LoopHeader returns the header of the innermost natural loop containing b,
// or nil.
func LoopHeader(b *ssa.BasicBlock) *ssa.BasicBlock {
	for h := b; h != nil; h = h.Idom() {
		for _, p := range h.Preds {
			if (p == h || h.Dominates(p)) && reachesAvoiding(b, p, h) {
				return h
			}
		}
	}
	return nil
}

// reachesAvoiding: can control go from block a to block b (a==b counts)
// without entering block avoid (unless a itself is avoid, which is the start)?
func reachesAvoiding(a, b, avoid *ssa.BasicBlock) bool {
	if a == b {
		return true
	}
	seen := map[*ssa.BasicBlock]bool{a: true}
	work := []*ssa.BasicBlock{a}
	for len(work) > 0 {
		x := work[len(work)-1]
		work = work[:len(work)-1]
		for _, s := range x.Succs {
			if s == b {
				return true
			}
			if s == avoid || seen[s] {
				continue
			}
			seen[s] = true
			work = append(work, s)
		}
	}
	return false
}

// LoopVisitsAll decides the "for every element, no early exit" shape for a
// call c inside a loop: c is in a natural loop whose header tests an index
// against len(X) (range loop) and no path from c reaches a function exit
// without passing through the loop header again (no break / return / panic
// in the body after c). It returns the ranged-over expression description.
func LoopVisitsAll(fn *ssa.Function, c ssa.Instruction) (ok bool, over string, why string) {
	h := LoopHeader(c.Block())
	if h == nil {
		return false, "", "call is not inside a loop"
	}
	iff, isIf := h.Instrs[len(h.Instrs)-1].(*ssa.If)
	if !isIf {
		return false, "", "loop header does not end in a condition"
	}
	cond := Desc(iff.Cond)
	i := strings.Index(cond, "len(")
	if i < 0 {
		return false, "", "loop condition " + cond + " is not an index/len comparison"
	}
	over = cond[i+4:]
	if j := strings.Index(over, ")"); j >= 0 {
		over = over[:j]
	}
	inHeader := func(x ssa.Instruction) bool { return x.Block() == h }
	if w := WitnessPath(fn, c, IsExit, inHeader); w != nil {
		return false, over, "an exit at " + w.String() + " is reachable from the loop body without re-testing the loop condition (early return/break)"
	}
	// break: leaving the loop other than via the header's false edge
	exitBlock := h.Succs[1]
	if h.Succs[0] != nil && !reachesAvoiding(h.Succs[0], c.Block(), h) {
		exitBlock = h.Succs[0]
	}
	_ = exitBlock
	// any path from c to a block outside the loop that avoids the header is a break
	seen := map[*ssa.BasicBlock]bool{}
	work := []*ssa.BasicBlock{c.Block()}
	seen[c.Block()] = true
	for len(work) > 0 {
		x := work[len(work)-1]
		work = work[:len(work)-1]
		for _, s := range x.Succs {
			if s == h || seen[s] {
				continue
			}
			if !h.Dominates(s) || !inLoop(s, h) {
				return false, over, "the loop body can leave the loop without re-testing the loop condition (break)"
			}
			seen[s] = true
			work = append(work, s)
		}
	}
	return true, over, ""
}

func inLoop(b, h *ssa.BasicBlock) bool {
	for _, p := range h.Preds {
		if (p == h || h.Dominates(p)) && reachesAvoiding(b, p, h) {
			return true
		}
	}
	return false
}

// ---------------------------------------------------------------------------
// locksets (A4)

var lockFuncs = map[string]int{
	"(*sync.Mutex).Lock": +1, "(*sync.Mutex).Unlock": -1,
	"(*sync.RWMutex).Lock": +1, "(*sync.RWMutex).Unlock": -1,
	"(*sync.RWMutex).RLock": +2, "(*sync.RWMutex).RUnlock": -2,
}

// LockEvent classifies a call as lock (+1 write, +2 read) / unlock (-1, -2)
// on the mutex described by the returned string.
func LockEvent(c ssa.CallInstruction) (kind int, mutex string) {
	f := CalleeFunc(c)
	if f == nil {
		return 0, ""
	}
	k, ok := lockFuncs[f.FullName()]
	if !ok {
		return 0, ""
	}
	args := Args(c)
	if len(args) == 0 {
		return 0, ""
	}
	return k, Desc(args[0])
}

type LockSet map[string]int // mutex -> 1 (write) / 2 (read)

func (l LockSet) clone() LockSet {
	n := LockSet{}
	for k, v := range l {
		n[k] = v
	}
	return n
}

func (l LockSet) String() string {
	var s []string
	for k, v := range l {
		if v == 2 {
			s = append(s, "R:"+k)
		} else {
			s = append(s, "W:"+k)
		}
	}
	sort.Strings(s)
	return "{" + strings.Join(s, ",") + "}"
}

// MustHeld computes, for every instruction of fn, the set of mutexes that
// are held on EVERY path reaching it (intersection at joins). A deferred
// Unlock does not release (held until exit). entry is the lockset assumed at
// function entry (for helpers whose callers all hold a lock).
func MustHeld(fn *ssa.Function, entry LockSet) map[ssa.Instruction]LockSet {
	out := map[*ssa.BasicBlock]LockSet{}
	in := map[*ssa.BasicBlock]LockSet{}
	res := map[ssa.Instruction]LockSet{}
	if fn == nil || len(fn.Blocks) == 0 {
		return res
	}
	if entry == nil {
		entry = LockSet{}
	}
	transfer := func(b *ssa.BasicBlock, s LockSet, record bool) LockSet {
		cur := s.clone()
		for _, i := range b.Instrs {
			if record {
				res[i] = cur.clone()
			}
			if c, ok := i.(*ssa.Call); ok {
				k, m := LockEvent(c)
				switch {
				case k > 0:
					cur[m] = k
				case k < 0:
					delete(cur, m)
				}
			}
		}
		return cur
	}
	changed := true
	for iter := 0; changed && iter < 100; iter++ {
		changed = false
		for _, b := range fn.Blocks {
			var s LockSet
			if b == fn.Blocks[0] {
				s = entry.clone()
			} else {
				first := true
				for _, p := range b.Preds {
					po, ok := out[p]
					if !ok {
						continue // not yet computed: optimistic (top)
					}
					if first {
						s = po.clone()
						first = false
					} else {
						for k, v := range s {
							if po[k] != v {
								delete(s, k)
							}
						}
					}
				}
				if s == nil {
					s = LockSet{}
					if len(b.Preds) > 0 {
						continue
					}
				}
			}
			o := transfer(b, s, false)
			if !sameLS(in[b], s) || !sameLS(out[b], o) {
				in[b], out[b] = s, o
				changed = true
			}
		}
	}
	for _, b := range fn.Blocks {
		if s, ok := in[b]; ok {
			transfer(b, s, true)
		}
	}
	return res
}

func sameLS(a, b LockSet) bool {
	if (a == nil) != (b == nil) || len(a) != len(b) {
		return false
	}
	for k, v := range a {
		if b[k] != v {
			return false
		}
	}
	return true
}

// DeferredUnlocks lists the mutexes unlocked by deferred calls in fn.
func DeferredUnlocks(fn *ssa.Function) map[string]bool {
	out := map[string]bool{}
	AllInstrs(fn, func(i ssa.Instruction) {
		if d, ok := i.(*ssa.Defer); ok {
			if k, m := LockEvent(d); k < 0 {
				out[m] = true
			}
		}
	})
	return out
}

// ---------------------------------------------------------------------------
// type discovery

// MethodsNamed finds, in the root packages, all concrete named types that
// declare (not merely promote) a method with the given name; returns the SSA
// functions sorted by name. filter may reject by signature.
func (p *Program) MethodsNamed(name string, filter func(sig *types.Signature) bool) []*ssa.Function {
	var out []*ssa.Function
	for _, pk := range p.Roots {
		sc := pk.Types.Scope()
		for _, n := range sc.Names() {
			tn, ok := sc.Lookup(n).(*types.TypeName)
			if !ok || tn.IsAlias() {
				continue
			}
			named, ok := tn.Type().(*types.Named)
			if !ok {
				continue
			}
			for i := 0; i < named.NumMethods(); i++ {
				m := named.Method(i)
				if FNm(m) != name {
					continue
				}
				if filter != nil && !filter(m.Type().(*types.Signature)) {
					continue
				}
				if f := p.SSA.FuncValue(m); f != nil {
					out = append(out, f)
				}
			}
		}
	}
	sort.Slice(out, func(i, j int) bool { return FStr(out[i]) < FStr(out[j]) })
	return out
}

// Implementers returns the named types (T or *T) in root packages
// implementing the interface.
func (p *Program) Implementers(iface *types.Interface) []*types.Named {
	var out []*types.Named
	for _, pk := range p.Roots {
		sc := pk.Types.Scope()
		for _, n := range sc.Names() {
			tn, ok := sc.Lookup(n).(*types.TypeName)
			if !ok || tn.IsAlias() {
				continue
			}
			named, ok := tn.Type().(*types.Named)
			if !ok || types.IsInterface(named) || named.TypeParams().Len() > 0 {
				continue
			}
			if types.Implements(named, iface) || types.Implements(types.NewPointer(named), iface) {
				out = append(out, named)
			}
		}
	}
	sort.Slice(out, func(i, j int) bool { return TStr(out[i]) < TStr(out[j]) })
	return out
}

// RecvNamed returns the named receiver type of an SSA method.
func RecvNamed(f *ssa.Function) *types.Named {
	if f == nil || f.Signature.Recv() == nil {
		return nil
	}
	n, _ := types.Unalias(deref(f.Signature.Recv().Type())).(*types.Named)
	return n
}

// IsTestSupport reports whether the function lives in a *_test.go file (never
// loaded) — always false here, kept for clarity: Tests:false.

// Callers returns all call instructions in root-package functions (incl.
// closures) whose static callee or invoked method is f.
func (p *Program) CallersOf(full string) []ssa.CallInstruction {
	var out []ssa.CallInstruction
	p.EachRootFunc(func(fn *ssa.Function) {
		for _, c := range Calls(fn) {
			if IsCallTo(c, full) {
				out = append(out, c)
			}
		}
	})
	return out
}

// EachRootFunc visits every source function (and closure, and method) of the
// root packages.
func (p *Program) EachRootFunc(f func(*ssa.Function)) {
	for _, fn := range p.RootFuncs() {
		f(fn)
	}
}

func (p *Program) RootFuncs() []*ssa.Function {
	if p.rootFuncs != nil {
		return p.rootFuncs
	}
	var out []*ssa.Function
	for _, pk := range p.Roots {
		sp := p.SSAPkg[pk.PkgPath]
		if sp == nil {
			continue
		}
		var names []string
		for n := range sp.Members {
			names = append(names, n)
		}
		sort.Strings(names)
		for _, n := range names {
			switch m := sp.Members[n].(type) {
			case *ssa.Function:
				out = append(out, WithClosures(m)...)
			case *ssa.Type:
				named, ok := m.Type().(*types.Named)
				if !ok {
					continue
				}
				for i := 0; i < named.NumMethods(); i++ {
					if f := p.SSA.FuncValue(named.Method(i)); f != nil {
						out = append(out, WithClosures(f)...)
					}
				}
			}
		}
	}
	// instantiations of generics in root packages
	p.rootFuncs = out
	return out
}

// EntryLockset: the mutexes held at EVERY call site of an eligible helper
// (in the helper's own terms), so that "caller must hold mu" helpers are
// analysed with the lock their callers provide.
func EntryLockset(fn *ssa.Function) LockSet { return entryLockset(fn, 0) }

var elBusy = map[*ssa.Function]bool{}

// runnerLockset: fn is a function literal that is only handed to a helper of the module which does nothing with it
// but call it (s.locked(func(){…})): what that helper holds when it makes the call, in the literal's own terms.
func runnerLockset(fn *ssa.Function, depth int) (LockSet, bool) {
	par := fn.Parent()
	if par == nil || depth > 4 {
		return nil, false
	}
	var common LockSet
	n := 0
	bad := false
	AllInstrs(par, func(in ssa.Instruction) {
		mk, ok := in.(*ssa.MakeClosure)
		if !ok || mk.Fn != ssa.Value(fn) || mk.Referrers() == nil {
			return
		}
		for _, r := range *mk.Referrers() {
			if _, isDbg := r.(*ssa.DebugRef); isDbg {
				continue
			}
			site, isCall := r.(*ssa.Call)
			if !isCall {
				bad = true
				continue
			}
			h := site.Call.StaticCallee()
			if h == nil || len(h.Blocks) == 0 || !curProgRoot(h) {
				bad = true
				continue
			}
			for ai, a := range site.Call.Args {
				if a != ssa.Value(mk) || ai >= len(h.Params) {
					continue
				}
				q := h.Params[ai]
				if q.Referrers() == nil {
					bad = true
					continue
				}
				heldIn := MustHeld(h, entryLockset(h, depth+1))
				for _, qr := range *q.Referrers() {
					if _, isDbg := qr.(*ssa.DebugRef); isDbg {
						continue
					}
					qc, isQC := qr.(*ssa.Call)
					if !isQC || qc.Call.Value != ssa.Value(q) {
						bad = true
						continue
					}
					// the helper's names → the call site's names (the literal sees its parent's variables by name)
					tr := LockSet{}
					for m, kind := range heldIn[qc] {
						for pi, hp := range h.Params {
							if pi >= len(site.Call.Args) {
								break
							}
							pn := PN(hp)
							if m == pn || strings.HasPrefix(m, pn+".") {
								tr[Desc(site.Call.Args[pi])+strings.TrimPrefix(m, pn)] = kind
							}
						}
						if !strings.Contains(m, ".") {
							tr[m] = kind
						}
					}
					if n == 0 {
						common = tr
					} else {
						for m, kind := range common {
							if tr[m] != kind {
								delete(common, m)
							}
						}
					}
					n++
				}
			}
		}
	})
	if bad || n == 0 {
		return nil, false
	}
	return common, true
}

func entryLockset(fn *ssa.Function, depth int) LockSet {
	if depth <= 4 && !elBusy[fn] && fn.Parent() != nil && !Eligible(fn) {
		elBusy[fn] = true
		ls, ok := runnerLockset(fn, depth)
		delete(elBusy, fn)
		if ok {
			return ls
		}
	}
	if depth > 4 || elBusy[fn] || !Eligible(fn) {
		return LockSet{}
	}
	elBusy[fn] = true
	defer delete(elBusy, fn)
	var common LockSet
	for k, s := range sitesOf(fn) {
		caller := s.Parent()
		held := MustHeld(caller, entryLockset(caller, depth+1))[s]
		if _, isDefer := s.(*ssa.Defer); isDefer {
			// runs at function exit: whatever is held at the returns with deferred unlocks not yet run is unknowable here
			held = LockSet{}
		}
		// translate caller paths to callee paths through the arguments
		tr := LockSet{}
		for m, kind := range held {
			for i, a := range s.Common().Args {
				if i >= len(fn.Params) {
					break
				}
				ad := Desc(a)
				if m == ad || strings.HasPrefix(m, ad+".") {
					tr[PN(fn.Params[i])+strings.TrimPrefix(m, ad)] = kind
				}
			}
			if !strings.Contains(m, ".") {
				tr[m] = kind // global mutex
			}
			// closures see the parent's variables under the same names
			if fn.Parent() != nil {
				tr[m] = kind
			}
		}
		if k == 0 {
			common = tr
		} else {
			for m, kind := range common {
				if tr[m] != kind {
					delete(common, m)
				}
			}
		}
	}
	if common == nil {
		common = LockSet{}
	}
	return common
}

// MustHeldCtx is MustHeld with the entry lockset the call sites guarantee.
func MustHeldCtx(fn *ssa.Function) map[ssa.Instruction]LockSet {
	return MustHeld(fn, EntryLockset(fn))
}
