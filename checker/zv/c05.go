package zv

import (
	"go/constant"
	"go/token"
	"go/types"
	"regexp"
	"sort"
	"strings"

	"golang.org/x/tools/go/ssa"
)

func init() {
	Props["C05"] = Prop{
		Title: "An entry is written exactly where its level is enabled; reported levels agree",
		Fn:    checkC05,
		Explanation: "Decides, for every zapcore.Core implementation in the tree, the Check discipline of its class (leaf: registers itself only under its own Enabled(ent.Level); filter: returns the incoming entry when disabled and otherwise delegates with the same entry; tee: threads the checked entry through every branch; hook wrapper: registers only on evidence that the wrapped core grew the core list relative to the incoming entry), " +
			"the legality of every cheap Enabled pre-check in the logging front ends (constant level below DPanic, or conjoined with lvl < DPanic, on the logger's live core), the reported level (every Level() is LevelOf of the wrapped enabler; the tee minimum is seeded with InvalidLevel; LevelOf scans the whole level range ascending), the increase-only validation loop, that CheckedEntry.Write/field sweetening only run under ce != nil, and that AtomicLevel's only state is one atomic accessed afresh on every Enabled. " +
			"Also decided, by bounded concrete exploration: NewTee for 0..3 cores keeps every core it is given, in order, on every path (no construction-time filtering by what a core enables at that moment); zapgrpc's enabler fields hold the logger's live core also when handed down through constructor parameters. " +
			"NOT decided: behaviour of user-supplied enablers/cores, histories of SetLevel, out-of-range gRPC verbosity.",
		Assumptions: commonAssumptions,
	}
}

// ConstVal returns the integer value of a package-level constant.
func (p *Program) ConstVal(pkg, name string) (int64, bool) {
	o, ok := p.Obj(pkg, name).(*types.Const)
	if !ok {
		return 0, false
	}
	v, exact := constant.Int64Val(constant.ToInt(o.Val()))
	return v, exact
}

var coreClass = map[string]string{
	"go.uber.org/zap/zapcore.nopCore":                  "nop",
	"go.uber.org/zap/zapcore.ioCore":                   "leaf",
	"go.uber.org/zap/zaptest/observer.contextObserver": "leaf",
	"go.uber.org/zap/zapcore.levelFilterCore":          "filter",
	"go.uber.org/zap/zapcore.sampler":                  "filter",
	"go.uber.org/zap/zapcore.multiCore":                "tee",
	"go.uber.org/zap/zapcore.lazyWithCore":             "passthrough",
	"go.uber.org/zap/zapcore.hooked":                   "hookwrapper",
}

var reEnabledEntLevel = regexp.MustCompile(`^Enabled\(.*, (ent|e)\.Level\)$`)

func (c *Ctx) coreIface() *types.Interface {
	n := c.Named(CorePath, "Core")
	if n == nil {
		return nil
	}
	i, _ := n.Underlying().(*types.Interface)
	return i
}

func checkC05(c *Ctx) {
	c.Rule("R5.1", "Check discipline of every zapcore.Core implementation according to its class", 8)
	c.Rule("R5.2", "every Enabled pre-check guarding a logging call in a front end is legal (level < DPanic) and asks the live core", 9)
	c.Rule("R5.3", "reported level: Level() = LevelOf(wrapped); tee min-fold seeded with InvalidLevel; LevelOf scans the whole range ascending", 9)
	c.Rule("R5.4", "NewIncreaseLevelCore validates over the whole level range and builds the core only on success", 2)
	c.Rule("R5.11", "the IncreaseLevel option always asks for the filter core and installs it whenever it was built (equal levels now do not make the filter a no-op later)", 1)
	c5IncreaseOption(c, "R5.11")
	c.Rule("R5.12", "the std-log bridges always install a writer that logs through the logger at the requested level (whether that level is enabled is decided on every Write, not frozen when the bridge is built)", 15)
	c.As(map[string]string{"R6.2": "R5.12"}, func() { c6StdBridge(c, "R6.2", c5LevelValues(c)) })
	c.Rule("R5.13", "wrapper cores (level filter, hooks, sampler) derive a wrapper of their own kind around the derived inner core: a child never loses the filter", 5)
	c.As(map[string]string{"R7.4": "R5.13"}, func() { c7Wrappers(c) })
	c.Rule("R5.17", "the slog handler filters and reports a record at the zap level of the greatest named slog level not above the record's (evaluated for every slog level): a level between Debug and Info is a debug message for Enabled and for Handle alike", 2)
	c.Rule("R5.18", "RegisterHooks keeps a copy of the hooks: the hooks of a core already built do not change when the caller rewrites its slice", 1)
	c.Rule("R5.19", "a core derived through With keeps the parent's level enabler itself (same sink, same enabler): a child does not freeze the threshold it was derived under", 3)
	c.As(map[string]string{"R7.3": "R5.19"}, func() { c7Clone(c) })
	c5HooksCopied(c, "R5.18")
	c.As(map[string]string{"R18.2": "R5.17"}, func() { c18LevelMap(c) })
	c.Rule("R5.16", "a printer installed by an option of the gRPC adapter pre-checks (Println) at the level its functions log at", 2)
	c5GrpcPrinterOptions(c, "R5.16")
	c.Rule("R5.15", "hooked.Check reads how many cores had accepted before it asks the wrapped core (read afterwards, the count includes the wrapped core and the hooks never fire behind an accepting tee branch)", 1)
	c5HookedCountsBefore(c, "R5.15")
	c.Rule("R5.14", "each method of the gRPC adapter logs through the delegate method of its own level (what V reports for a severity is then what decides the entry, and the entry carries that level)", 15)
	c6GrpcRoutes(c, "R5.14")
	c.Rule("R5.5", "CheckedEntry.Write in front ends only under ce != nil", 8)
	c.Rule("R5.6", "AtomicLevel: a single atomic, read afresh by Enabled, written only by Store", 3)

	impls := c5CheckDiscipline(c)
	if impls == nil {
		return
	}

	c5PreChecks(c)
	c5Levels(c, impls)
	c5Increase(c)
	c5WriteGuard(c)
	c5Atomic(c)
	c5EnabledCheap(c, impls)
}

// c5EnabledCheap: "a disabled entry causes no field marshaling, no entry-hook call and no sink activity". The cheap
// pre-check of every front end is Core.Enabled, so nothing reachable from any Core implementation's Enabled may
// derive a core (With), marshal fields, run a hook or touch an encoder/sink.
func c5EnabledCheap(c *Ctx, impls []*types.Named) {
	c.Rule("R5.20", "the tee's Enabled is made of its branches' own answers for the level asked about (it asks the branches' Enabled) and never of a reported minimum level - with a branch enabler that is not a threshold the minimum says nothing about the levels above it", 1)
	c.Rule("R5.7", "Enabled of every Core implementation reaches no With / field marshaling / hook / encoder / sink call", 4)
	c.Rule("R5.9", "NewTee keeps every core it is given (no construction-time filtering by what a core enables at that moment)", 1)
	c.Rule("R5.10", "zapio.Writer: nothing is buffered or logged while the writer's level is disabled (bytes written then must not surface once the level is lowered)", 5)
	c17Rules(c, "R5.10")
	c5NewTee(c, "R5.9")
	heavy := func(cl ssa.CallInstruction) string {
		cc := cl.Common()
		var f *types.Func
		if cc.IsInvoke() {
			f = cc.Method
		} else {
			f = CalleeFunc(cl)
		}
		if f == nil {
			if _, isB := cc.Value.(*ssa.Builtin); isB {
				return ""
			}
			if _, isMk := cc.Value.(*ssa.MakeClosure); isMk {
				return ""
			}
			return "" // dynamic call of a func value: user enablers (LevelEnablerFunc) are outside zap's control
		}
		full := f.FullName()
		switch {
		case strings.HasSuffix(full, "zapcore.Core).With"), strings.HasSuffix(full, "zapcore.Core).Write"), strings.HasSuffix(full, "zapcore.Core).Sync"), strings.HasSuffix(full, "zapcore.Core).Check"):
			return full
		case FNm(f) == "AddTo" && strings.Contains(full, "zapcore.Field"), full == "go.uber.org/zap/zapcore.addFields":
			return full
		case strings.Contains(full, "zapcore.Encoder)."), strings.Contains(full, "zapcore.ObjectEncoder)."), strings.Contains(full, "zapcore.WriteSyncer)."), full == "(io.Writer).Write":
			return full
		case strings.Contains(full, "zapcore.ObjectMarshaler)."), strings.Contains(full, "zapcore.ArrayMarshaler)."):
			return full
		}
		return ""
	}
	for _, t := range impls {
		fn := c.Method(t.Obj().Pkg().Path(), TNm(t.Obj()), "Enabled")
		tn := t.Obj().Pkg().Path() + "." + TNm(t.Obj())
		if fn == nil || len(fn.Blocks) == 0 || fn.Synthetic != "" {
			c.Triv("R5.7", tn, "Enabled", t.Obj().Pos(), "Enabled is promoted from an embedded enabler/core (decided at that type)")
			continue
		}
		seen := map[*ssa.Function]bool{}
		var bad []string
		var rec func(f *ssa.Function, depth int)
		rec = func(f *ssa.Function, depth int) {
			if f == nil || seen[f] || depth > 6 || len(f.Blocks) == 0 || !curProgRoot(f) {
				return
			}
			seen[f] = true
			for _, g := range WithClosures(f) {
				seen[g] = true
				for _, cl := range Calls(g) {
					if h := heavy(cl); h != "" {
						bad = append(bad, FNm(g)+" calls "+h)
						continue
					}
					if sc := StaticCallee(cl); sc != nil {
						rec(sc, depth+1)
					}
				}
			}
		}
		rec(fn, 0)
		c.Check(len(bad) == 0, "R5.7", FStr(fn), "cheap", fn.Pos(), "nothing reachable from Enabled (%d zap functions incl. closures) derives a core, marshals a field, runs a hook or touches an encoder or sink, so a disabled entry costs none of those: %v", len(seen), bad)
	}
	c5TeeEnabled(c, "R5.20")
}

func c5Check(c *Ctx, tn, class string, fn *ssa.Function) {
	name := FStr(fn)
	if len(fn.Params) != 3 {
		c.Und("R5.1", name, "params", fn.Pos(), "unexpected parameter list")
		return
	}
	recv, ent, ce := fn.Params[0], fn.Params[1], fn.Params[2]
	_ = recv
	isCE := func(v ssa.Value) bool { return Strip(v) == ssa.Value(ce) }
	// calls
	var addCore, inner []*ssa.Call
	for _, cl := range Calls(fn) {
		call, ok := cl.(*ssa.Call)
		if !ok {
			continue
		}
		switch {
		case IsCallTo(cl, "(*go.uber.org/zap/zapcore.CheckedEntry).AddCore"):
			addCore = append(addCore, call)
		case IsCallTo(cl, "(go.uber.org/zap/zapcore.Core).Check"):
			inner = append(inner, call)
		}
	}
	posEnabled := func(at ssa.Instruction) bool {
		return HasAtom(Guards(at), func(s string) bool { return reEnabledEntLevel.MatchString(s) })
	}
	sameEnt := func(call *ssa.Call) bool {
		a := call.Call.Args
		return len(a) == 2 && Strip(a[0]) == ssa.Value(ent)
	}
	switch class {
	case "nop":
		ok := len(addCore) == 0 && len(inner) == 0
		for _, r := range Returns(fn) {
			ok = ok && isCE(RetVals(r)[0])
		}
		c.Check(ok, "R5.1", name, "nop", fn.Pos(), "no-op core returns the incoming checked entry unchanged and registers nothing")
	case "leaf":
		if len(addCore) != 1 || len(inner) != 0 {
			c.Bad("R5.1", name, "leaf-shape", fn.Pos(), "leaf core must have exactly one AddCore and no delegation (AddCore=%d, inner Check=%d)", len(addCore), len(inner))
			return
		}
		ac := addCore[0]
		c.Check(posEnabled(ac), "R5.1", name, "registers-iff-enabled", ac.Pos(), "AddCore is guarded by the core's own Enabled(ent.Level) (guards %v)", AtomStrings(Guards(ac)))
		a := ac.Call.Args
		c.Check(isCE(a[0]) && Strip(a[1]) == ssa.Value(ent) && Strip(a[2]) == ssa.Value(recv), "R5.1", name, "registers-self", ac.Pos(), "AddCore(ent, self) is called on the incoming entry (args %s, %s, %s)", Desc(a[0]), Desc(a[1]), Desc(a[2]))
		for k, r := range Returns(fn) {
			v := Strip(RetVals(r)[0])
			if v == ssa.Value(ac) {
				continue
			}
			neg := HasAtom(Guards(r), func(s string) bool { return strings.HasPrefix(s, "!") && reEnabledEntLevel.MatchString(s[1:]) })
			c.Check(isCE(v) && neg, "R5.1", name, "disabled-returns-incoming#"+itoa(k+1), r.Pos(), "the disabled path returns the incoming entry itself (returns %s, guards %v)", Desc(v), AtomStrings(Guards(r)))
		}
	case "filter":
		if len(inner) < 1 || len(addCore) != 0 {
			c.Bad("R5.1", name, "filter-shape", fn.Pos(), "filter core must delegate and never register itself (inner Check=%d, AddCore=%d)", len(inner), len(addCore))
			return
		}
		for k, in := range inner {
			sfx := ""
			if k > 0 {
				sfx = "#" + itoa(k+1)
			}
			c.Check(posEnabled(in), "R5.1", name, "delegates-iff-enabled"+sfx, in.Pos(), "delegation is guarded by the filter's own Enabled(ent.Level) (guards %v)", AtomStrings(Guards(in)))
			c.Check(sameEnt(in) && isCE(in.Call.Args[1]), "R5.1", name, "delegates-same-entry"+sfx, in.Pos(), "wrapped.Check receives the same ent and the incoming checked entry (args %s, %s)", Desc(in.Call.Args[0]), Desc(in.Call.Args[1]))
		}
		for k, r := range Returns(fn) {
			v := Strip(RetVals(r)[0])
			isInner := false
			for _, in := range inner {
				isInner = isInner || v == ssa.Value(in)
			}
			c.Check(isInner || isCE(v), "R5.1", name, "return#"+itoa(k+1), r.Pos(), "returns either the wrapped result or the incoming entry (returns %s)", Desc(v))
		}
	case "passthrough":
		ok := len(inner) == 1 && len(addCore) == 0 && sameEnt(inner[0]) && isCE(inner[0].Call.Args[1])
		for _, r := range Returns(fn) {
			ok = ok && len(inner) == 1 && Strip(RetVals(r)[0]) == ssa.Value(inner[0])
		}
		c.Check(ok, "R5.1", name, "passthrough", fn.Pos(), "delegates unconditionally with the same ent and ce and returns the wrapped result")
	case "tee":
		if len(inner) != 1 {
			c.Bad("R5.1", name, "tee-shape", fn.Pos(), "tee must have one delegating call in a loop (found %d)", len(inner))
			return
		}
		in := inner[0]
		ok, over, why := LoopVisitsAll(fn, in)
		c.Check(ok && over == PN(recv), "R5.1", name, "visits-all", in.Pos(), "every branch is asked (range over %s) %s", over, why)
		// ce threaded: arg is phi(ce, in)
		ph, isPhi := Strip(in.Call.Args[1]).(*ssa.Phi)
		thread := false
		if isPhi {
			hasCE, hasIn := false, false
			for _, e := range ph.Edges {
				if isCE(e) {
					hasCE = true
				}
				if Strip(e) == ssa.Value(in) {
					hasIn = true
				}
			}
			thread = hasCE && hasIn
			for _, r := range Returns(fn) {
				thread = thread && Strip(RetVals(r)[0]) == ssa.Value(ph)
			}
		}
		c.Check(thread && sameEnt(in), "R5.1", name, "threads-ce", in.Pos(), "the checked entry returned by one branch is the one passed to the next and finally returned; every branch sees the same ent")
	case "hookwrapper":
		if len(inner) != 1 || len(addCore) != 1 {
			c.Bad("R5.1", name, "hook-shape", fn.Pos(), "hook wrapper must delegate once and register itself at one site (inner=%d, AddCore=%d)", len(inner), len(addCore))
			return
		}
		in, ac := inner[0], addCore[0]
		c.Check(sameEnt(in) && isCE(in.Call.Args[1]), "R5.1", name, "delegates-same-entry", in.Pos(), "wrapped.Check receives the same ent and the incoming checked entry")
		// acceptance evidence: a guard  len(<wrapped result>.cores) > N, N derived from len(ce.cores) of the incoming entry
		evidence := ""
		verdict := "undecided"
		for _, a := range Guards(ac) {
			b, ok := a.Cond.(*ssa.BinOp)
			if !ok {
				continue
			}
			s := atomStringRaw(a)
			resD := Desc(in)
			// normalise to "big > small"
			op := b.Op
			if !a.Pol {
				op = negOp[op]
			}
			big, small := b.X, b.Y
			switch op {
			case token.LSS:
				big, small, op = b.Y, b.X, token.GTR
			}
			switch {
			case (op == token.GTR || op == token.NEQ) && isCoreCountOf(big, in, 0) && isCoreCountOf(small, ce, 0):
				evidence, verdict = s, "ok"
			case s == resD+" != nil" || s == resD+" == nil":
				if verdict == "undecided" {
					evidence = s
				}
			case s == resD+" != "+ce.Name() || s == ce.Name()+" != "+resD:
				evidence, verdict = s, "pointer"
			}
		}
		switch verdict {
		case "ok":
			c.OK("R5.1", name, "registers-iff-wrapped-accepted", ac.Pos(), "hooks are registered only under %s: the wrapped core grew the core list relative to the incoming entry", evidence)
		case "pointer":
			c.Bad("R5.1", name, "registers-iff-wrapped-accepted", ac.Pos(), "acceptance judged by pointer comparison %s: the wrapped core returns the SAME non-nil entry when it accepts after an earlier tee branch, so the hooks never fire there", evidence)
		default:
			c.Bad("R5.1", name, "registers-iff-wrapped-accepted", ac.Pos(), "registration is guarded only by %q: a non-nil result is also produced when an earlier tee branch accepted and the wrapped core declined; no evidence relative to the incoming entry (core list growth) is tested (guards %v)", evidence, AtomStrings(Guards(ac)))
		}
		a := ac.Call.Args
		c.Check(Strip(a[0]) == ssa.Value(in) && Strip(a[1]) == ssa.Value(ent) && Strip(a[2]) == ssa.Value(recv), "R5.1", name, "registers-self", ac.Pos(), "AddCore(ent, self) on the wrapped result")
	}
}

// sliceHas: backward slice of v (through phi/binop/unop/convert/calls of len) contains a value satisfying pred.
func sliceHas(v ssa.Value, pred func(ssa.Value) bool) bool {
	seen := map[ssa.Value]bool{}
	var rec func(ssa.Value, int) bool
	rec = func(x ssa.Value, d int) bool {
		if x == nil || seen[x] || d > 20 {
			return false
		}
		seen[x] = true
		if pred(x) {
			return true
		}
		in, ok := x.(ssa.Instruction)
		if !ok {
			return false
		}
		for _, op := range in.Operands(nil) {
			if *op != nil && rec(*op, d+1) {
				return true
			}
		}
		return false
	}
	return rec(v, 0)
}

// front-end packages whose Enabled pre-checks are examined
var frontEndPkgs = map[string]bool{
	"go.uber.org/zap": true, "go.uber.org/zap/zapgrpc": true, "go.uber.org/zap/zapio": true, "go.uber.org/zap/exp/zapslog": true,
}

func isEnabledCall(cl ssa.CallInstruction) bool {
	f := CalleeFunc(cl)
	if f == nil || FNm(f) != "Enabled" {
		return false
	}
	sig := f.Type().(*types.Signature)
	return sig.Params().Len() == 1 && TypeName(sig.Params().At(0).Type()) == "zapcore.Level"
}

func c5PreChecks(c *Ctx) {
	dp, ok := c.ConstVal(CorePath, "DPanicLevel")
	if !c.Anchor("R5.2", "zapcore.DPanicLevel", ok) {
		return
	}
	exempt := map[string]string{
		"(*go.uber.org/zap/zapio.Writer).Write": "zapio.Writer documents that nothing is logged (nor buffered) while the level is disabled (property C17); it is not a Panic/Fatal front end",
	}
	c.EachRootFunc(func(fn *ssa.Function) {
		if fn.Pkg == nil || !frontEndPkgs[fn.Pkg.Pkg.Path()] {
			return
		}
		for _, cl := range Calls(fn) {
			call, isCall := cl.(*ssa.Call)
			if !isCall || !isEnabledCall(cl) {
				continue
			}
			// only pre-checks: result used as a branch condition
			usedAsCond := false
			if call.Referrers() != nil {
				for _, r := range *call.Referrers() {
					switch x := r.(type) {
					case *ssa.If:
						usedAsCond = true
					case *ssa.UnOp:
						if x.Referrers() != nil {
							for _, rr := range *x.Referrers() {
								if _, ok := rr.(*ssa.If); ok {
									usedAsCond = true
								}
							}
						}
					}
				}
			}
			if !usedAsCond {
				continue
			}
			args := Args(cl)
			recvD, lvl := Desc(args[0]), args[1]
			if strings.HasSuffix(recvD, ".addStack") {
				continue // stack-trace threshold, not a delivery filter (C15)
			}
			name := FStr(fn)
			slot := "precheck/" + recvD
			if why, ok := exempt[name]; ok {
				c.Triv("R5.2", name, slot, call.Pos(), "exempt: %s", why)
				continue
			}
			if v, isConst := ConstInt(lvl); isConst {
				c.Check(v < dp, "R5.2", name, slot, call.Pos(), "pre-check on constant level %d (must be < DPanicLevel=%d, otherwise the terminal action is skipped when the level is disabled)", v, dp)
			} else {
				want := Desc(lvl) + " < " + itoa(int(dp))
				alt := Desc(lvl) + " <= " + itoa(int(dp-1))
				ok := HasAtom(Guards(call), func(s string) bool { return s == want || s == alt })
				c.Check(ok, "R5.2", name, slot, call.Pos(), "pre-check on variable level %s is evaluated only under %s (guards %v)", Desc(lvl), want, AtomStrings(Guards(call)))
			}
			// live core
			live := recvD == "log.core" || strings.HasPrefix(recvD, "Core(") || strings.HasSuffix(recvD, ".levelEnabler") || strings.HasSuffix(recvD, ".enab") || strings.HasSuffix(recvD, ".core")
			c.Check(live, "R5.2", name, slot+"/live-core", call.Pos(), "the pre-check asks the logger's live core (%s)", recvD)
		}
	})
	// zapgrpc: the enabler fields are the logger's live core
	gp := "go.uber.org/zap/zapgrpc"
	for _, tf := range [][2]string{{"Logger", "levelEnabler"}, {"printer", "enab"}} {
		named := c.Named(gp, tf[0])
		if !c.Anchor("R5.2", "zapgrpc."+tf[0], named != nil) {
			continue
		}
		n := 0
		c.EachRootFunc(func(fn *ssa.Function) {
			if fn.Pkg == nil || fn.Pkg.Pkg.Path() != gp {
				return
			}
			AllInstrs(fn, func(i ssa.Instruction) {
				st, ok := i.(*ssa.Store)
				if !ok {
					return
				}
				fa, ok := st.Addr.(*ssa.FieldAddr)
				if !ok || fieldName(fa.X.Type(), fa.Field) != tf[1] {
					return
				}
				if nn, _ := types.Unalias(deref(fa.X.Type())).(*types.Named); nn == nil || nn.Obj() != named.Obj() {
					return
				}
				n++
				d := Desc(st.Val)
				// the stored value is the logger's core or a copy of an enabler field, possibly handed down through
				// constructor parameters (every call site must then pass such a value)
				var live func(v ssa.Value, depth int) bool
				live = func(v ssa.Value, depth int) bool {
					v = Strip(v)
					dd := Desc(v)
					if dd == "Core(l)" || strings.HasSuffix(dd, ".levelEnabler") || strings.HasSuffix(dd, ".enab") {
						return true
					}
					if cl, ok := v.(*ssa.Call); ok && IsCallTo(cl, "(*go.uber.org/zap.Logger).Core") {
						return true
					}
					if depth > 4 {
						return false
					}
					switch x := v.(type) {
					case *ssa.Phi:
						for _, e := range x.Edges {
							if !live(e, depth+1) {
								return false
							}
						}
						return len(x.Edges) > 0
					case *ssa.Parameter:
						idx := -1
						for i, p := range x.Parent().Params {
							if p == x {
								idx = i
							}
						}
						sites := c.CallersOf(FStr(x.Parent()))
						if idx < 0 || len(sites) == 0 {
							return false
						}
						for _, s := range sites {
							a := s.Common().Args
							if s.Common().StaticCallee() != x.Parent() || idx >= len(a) || !live(a[idx], depth+1) {
								return false
							}
						}
						return true
					}
					return false
				}
				ok2 := live(st.Val, 0)
				c.Check(ok2, "R5.2", FuncKey(fn), "enabler-is-live-core/"+tf[0]+"."+tf[1]+"#"+itoa(n), st.Pos(), "the adapter's level enabler is the logger's core itself, not a snapshot (stored value %s)", d)
			})
		})
		hasField := false
		if stt, ok := named.Underlying().(*types.Struct); ok {
			for i := 0; i < stt.NumFields(); i++ {
				hasField = hasField || FN(stt.Field(i)) == tf[1]
			}
		}
		if n == 0 && !hasField {
			c.Triv("R5.2", "zapgrpc."+tf[0]+"."+tf[1], "stores", 0, "the type keeps no enabler of its own (nothing to go stale)")
		} else if n == 0 {
			c.Bad("R5.2", "zapgrpc."+tf[0]+"."+tf[1], "stores", 0, "no store to the enabler field found")
		}
	}
}

func c5Levels(c *Ctx, impls []*types.Named) {
	inv, ok1 := c.ConstVal(CorePath, "InvalidLevel")
	minL, ok2 := c.ConstVal(CorePath, "_minLevel")
	maxL, ok3 := c.ConstVal(CorePath, "_maxLevel")
	if !c.Anchor("R5.3", "zapcore.InvalidLevel/_minLevel/_maxLevel", ok1 && ok2 && ok3) {
		return
	}
	c.Check(inv == maxL+1, "R5.3", "zapcore.InvalidLevel", "value", 0, "InvalidLevel (%d) is _maxLevel+1 (%d): above every level LevelOf can find", inv, maxL+1)
	// Level() methods
	for _, fn := range c.MethodsNamed("Level", func(sig *types.Signature) bool {
		return sig.Params().Len() == 0 && sig.Results().Len() == 1 && TypeName(sig.Results().At(0).Type()) == "zapcore.Level"
	}) {
		name := FStr(fn)
		rn := RecvNamed(fn)
		if rn == nil {
			continue
		}
		switch TNm(rn.Obj()) {
		case "multiCore":
			// min fold
			var acc *ssa.Phi
			for _, r := range Returns(fn) {
				acc, _ = Strip(RetVals(r)[0]).(*ssa.Phi)
			}
			if acc == nil {
				c.Und("R5.3", name, "min-fold", fn.Pos(), "returned level is not a loop accumulator")
				continue
			}
			var seed ssa.Value
			okUpd := true
			var lo *ssa.Call
			// the accumulator may be several phis (loop header and the join after the comparison): their closure is one value
			closure := map[*ssa.Phi]bool{}
			var walkPhi func(p *ssa.Phi)
			var collect func(p *ssa.Phi)
			collect = func(p *ssa.Phi) {
				if closure[p] {
					return
				}
				closure[p] = true
				for _, e := range p.Edges {
					if q, isPhi := Strip(e).(*ssa.Phi); isPhi {
						collect(q)
					}
				}
			}
			collect(acc)
			walked := map[*ssa.Phi]bool{}
			walkPhi = func(p *ssa.Phi) {
				if walked[p] {
					return
				}
				walked[p] = true
				for i, e := range p.Edges {
					pred := p.Block().Preds[i]
					se := Strip(e)
					if q, isPhi := se.(*ssa.Phi); isPhi {
						walkPhi(q)
						continue
					}
					if call, isCall := se.(*ssa.Call); isCall && IsCallTo(call, "go.uber.org/zap/zapcore.LevelOf") {
						lo = call
						for _, cond := range edgeConds(pred) {
							b, isCmp := cond.Cond.(*ssa.BinOp)
							okc := false
							if isCmp {
								x, y := Strip(b.X), Strip(b.Y)
								xp, _ := x.(*ssa.Phi)
								yp, _ := y.(*ssa.Phi)
								switch {
								case x == ssa.Value(call) && yp != nil && closure[yp]:
									okc = (b.Op == token.LSS && cond.Pol) || (b.Op == token.GEQ && !cond.Pol)
								case y == ssa.Value(call) && xp != nil && closure[xp]:
									okc = (b.Op == token.GTR && cond.Pol) || (b.Op == token.LEQ && !cond.Pol)
								}
							}
							if !okc {
								okUpd = false
							}
						}
						continue
					}
					if seed != nil && seed != e {
						okUpd = false
					}
					seed = e
				}
			}
			walkPhi(acc)
			sv, isC := ConstInt(seed)
			c.Check(isC && sv == inv, "R5.3", name, "seed", acc.Pos(), "the tee's minimum is seeded with %s (must be InvalidLevel=%d, the value LevelOf reports for a branch with nothing enabled; a valid level as seed is reported for an all-disabled tee)", Desc(seed), inv)
			visits := false
			if lo != nil {
				v, over, _ := LoopVisitsAll(fn, lo)
				visits = v && over == PN(fn.Params[0])
			}
			c.Check(lo != nil && okUpd && visits, "R5.3", name, "min-fold", acc.Pos(), "minimum of LevelOf over every branch, updated only under lvl < min")
		case "AtomicLevel", "Level":
			// not wrappers
		default:
			for k, r := range Returns(fn) {
				call, isCall := Strip(RetVals(r)[0]).(*ssa.Call)
				ok := isCall && IsCallTo(call, "go.uber.org/zap/zapcore.LevelOf")
				d := ""
				if ok {
					d = Desc(call.Call.Args[0])
					// argument is a field of the receiver (wrapped core or own enabler)
					ok = strings.HasPrefix(d, PN(fn.Params[0])+".")
				} else if isCall && call.Call.StaticCallee() != nil && FNm(call.Call.StaticCallee()) == "Level" && len(call.Call.Args) == 1 {
					// ... or delegates to the Level() of the object it wraps (itself decided here)
					d = Desc(call.Call.Args[0])
					ok = strings.HasPrefix(d, PN(fn.Params[0])+".")
				}
				c.Check(ok, "R5.3", name, "return#"+itoa(k+1), r.Pos(), "Level() reports LevelOf(%s) of the wrapped core / own enabler", d)
			}
		}
	}
	// every Core implementation (except nop, lazy) has a Level method, else LevelOf probes Enabled which is also fine
	// Logger.Level
	ll := c.Method(ZapPath, "Logger", "Level")
	if c.Anchor("R5.3", "zap.Logger.Level", ll != nil) {
		for k, r := range Returns(ll) {
			c.Check(Desc(RetVals(r)[0]) == "LevelOf(log.core)", "R5.3", FStr(ll), "return#"+itoa(k+1), r.Pos(), "Logger.Level reports LevelOf of the live core (%s)", Desc(RetVals(r)[0]))
		}
	}
	// LevelOf
	lo := c.Func(CorePath, "LevelOf")
	if c.Anchor("R5.3", "zapcore.LevelOf", lo != nil) {
		name := FStr(lo)
		// Path exploration with the loop counter evident on every path: which levels are probed, in which order,
		// and what is returned after each possible sequence of answers.
		seqs, trunc := ConcPaths(lo, ConcCfg{
			Unroll: true,
			Event: func(in ssa.Instruction, st *ConcState) string {
				switch x := in.(type) {
				case *ssa.Call:
					if isEnabledCall(x) {
						a := Args(x)
						if k, ok := st.Int(a[len(a)-1]); ok {
							return "probe(" + itoa(int(k)) + ")"
						}
						return "probe(?" + st.Desc(a[len(a)-1]) + ")"
					}
					if f := CalleeFunc(x); f != nil && FNm(f) == "Level" && x.Call.IsInvoke() {
						return "own-level"
					}
				case *ssa.Return:
					if k, ok := st.Int(x.Results[0]); ok {
						return "ret(" + itoa(int(k)) + ")"
					}
					rv := Strip(x.Results[0])
					for k := 0; k < 8; k++ {
						if rc, ok := rv.(*ssa.Call); ok {
							if f := CalleeFunc(rc); f != nil && FNm(f) == "Level" && rc.Call.IsInvoke() {
								return "ret(own-level)"
							}
						}
						nx := st.Step(rv)
						if nx == nil {
							break
						}
						rv = Strip(nx)
					}
					return "ret(?" + st.Desc(x.Results[0]) + ")"
				}
				return ""
			},
			Branch: func(cond ssa.Value, taken bool, st *ConcState) string {
				cv := cond
				pol := taken
				for k := 0; k < 8; k++ {
					if u, ok := cv.(*ssa.UnOp); ok && u.Op == token.NOT {
						cv, pol = u.X, !pol
						continue
					}
					if nx := st.Step(cv); nx != nil {
						cv = nx
						continue
					}
					break
				}
				if cl, ok := cv.(*ssa.Call); ok && isEnabledCall(cl) {
					if pol {
						return "yes"
					}
					return "no"
				}
				return ""
			},
		})
		if trunc || len(seqs) == 0 {
			c.Und("R5.3", name, "scan", lo.Pos(), "path exploration of LevelOf incomplete (%d sequences, truncated=%v)", len(seqs), trunc)
			return
		}
		want := map[string]bool{"own-level ; ret(own-level)": true}
		pre := ""
		for l := minL; l <= maxL; l++ {
			pre += "probe(" + itoa(int(l)) + ") ; "
			want[pre+"yes ; ret("+itoa(int(l))+")"] = true
			pre += "no ; "
		}
		want[pre+"ret("+itoa(int(inv))+")"] = true
		var bad, missing []string
		got := map[string]bool{}
		for _, sq := range seqs {
			got[sq] = true
			if !want[sq] {
				bad = append(bad, sq)
			}
		}
		for w := range want {
			if !got[w] {
				missing = append(missing, w)
			}
		}
		sort.Strings(missing)
		c.Check(len(bad) == 0 && len(missing) == 0, "R5.3", name, "scan", lo.Pos(), "all %d paths of LevelOf (loop walked level by level, every Enabled answer free): a leveled enabler's own Level(), else Enabled is probed for %d..%d ascending, the first level answered yes is returned, InvalidLevel (%d) when every answer is no (unexpected paths %v; missing %v)", len(seqs), minL, maxL, inv, bad, missing)
	}
}

// loopRange analyses an induction phi φ(seed, φ±1) whose loop condition
// compares it with a constant; returns (lowest, highest, |step| direction as +1 ascending/-1 descending, inclusive).
func loopRange(ph *ssa.Phi) (lo, hi, step int64, inclusive bool) {
	var seed int64
	haveSeed := false
	for _, e := range ph.Edges {
		if v, ok := ConstInt(e); ok {
			seed, haveSeed = v, true
		} else if b, ok := e.(*ssa.BinOp); ok && b.X == ssa.Value(ph) {
			if v, ok := ConstInt(b.Y); ok {
				if b.Op == token.ADD {
					step = v
				} else if b.Op == token.SUB {
					step = -v
				}
			}
		}
	}
	if !haveSeed || step == 0 {
		return 0, 0, 0, false
	}
	// condition in the phi's block
	blk := ph.Block()
	iff, ok := blk.Instrs[len(blk.Instrs)-1].(*ssa.If)
	if !ok {
		return 0, 0, 0, false
	}
	b, ok := iff.Cond.(*ssa.BinOp)
	if !ok || b.X != ssa.Value(ph) {
		return 0, 0, 0, false
	}
	bound, ok := ConstInt(b.Y)
	if !ok {
		return 0, 0, 0, false
	}
	switch {
	case step > 0 && b.Op == token.LEQ:
		return seed, bound, step, true
	case step > 0 && b.Op == token.LSS:
		return seed, bound - 1, step, true
	case step < 0 && b.Op == token.GEQ:
		return bound, seed, step, true
	case step < 0 && b.Op == token.GTR:
		return bound + 1, seed, step, true
	}
	return 0, 0, 0, false
}

func c5Increase(c *Ctx) {
	fn := c.Func(CorePath, "NewIncreaseLevelCore")
	minL, _ := c.ConstVal(CorePath, "_minLevel")
	maxL, _ := c.ConstVal(CorePath, "_maxLevel")
	if !c.Anchor("R5.4", "zapcore.NewIncreaseLevelCore", fn != nil) {
		return
	}
	name := FStr(fn)
	coreP, lvlP := fn.Params[0], fn.Params[1]
	var probeCore, probeLvl *ssa.Call
	for _, cl := range CallsDeep(fn) {
		if isEnabledCall(cl) {
			call := cl.(*ssa.Call)
			var d string
			Bound(func() { d = Desc(call.Call.Value) })
			if call.Call.Value == ssa.Value(coreP) || d == coreP.Name() {
				probeCore = call
			} else if call.Call.Value == ssa.Value(lvlP) || d == lvlP.Name() {
				probeLvl = call
			}
		}
	}
	if probeCore == nil || probeLvl == nil {
		c.Bad("R5.4", name, "probes", fn.Pos(), "both core.Enabled(l) and level.Enabled(l) must be probed")
		return
	}
	ph, isPhi := Strip(probeCore.Call.Args[0]).(*ssa.Phi)
	same := isPhi && Strip(probeLvl.Call.Args[0]) == ssa.Value(ph)
	okRange := false
	detail := ""
	if isPhi {
		lo, hi, step, incl := loopRange(ph)
		okRange = lo == minL && hi == maxL && (step == 1 || step == -1) && incl
		detail = itoa(int(lo)) + ".." + itoa(int(hi)) + " step " + itoa(int(step))
	}
	c.Check(same && okRange, "R5.4", name, "whole-range", probeCore.Pos(), "both enablers are probed at the same level for every level %s (must cover _minLevel..=_maxLevel)", detail)
	nErr, nOK := 0, 0
	for k, r := range Returns(fn) {
		rv := RetVals(r)
		if IsNilConst(Strip(rv[1])) {
			nOK++
			// success only after the loop is exhausted: not reachable while loop cond true... the return block must not be inside the loop
			inL := LoopHeader(r.Block()) != nil
			_, isAlloc := Strip(rv[0]).(*ssa.Alloc)
			c.Check(!inL && isAlloc, "R5.4", name, "success-after-loop#"+itoa(k+1), r.Pos(), "the filtered core is built only after every level was validated")
		} else {
			nErr++
			var atoms []string
			var want1, want2 string
			Bound(func() {
				atoms = AtomStrings(Guards(r))
				want1, want2 = "!"+Desc(probeCore), Desc(probeLvl)
			})
			has1, has2 := false, false
			for _, a := range atoms {
				has1 = has1 || a == want1
				has2 = has2 || a == want2
			}
			c.Check(has1 && has2 && IsNilConst(Strip(rv[0])), "R5.4", name, "error-iff-widening#"+itoa(k+1), r.Pos(), "error (and nil core) exactly when the new enabler allows a level the core does not (guards %v)", atoms)
		}
	}
	if nErr == 0 || nOK == 0 {
		c.Bad("R5.4", name, "returns", fn.Pos(), "expected an error return and a success return")
	}
}

// ceWriteNilSafe: explored with a nil receiver, every path of CheckedEntry.Write returns without a call, a store or a
// read through the receiver.
func ceWriteNilSafe(c *Ctx) bool {
	if c.memoCEWrite != 0 {
		return c.memoCEWrite == 1
	}
	c.memoCEWrite = 2
	w := c.Method(CorePath, "CheckedEntry", "Write")
	if w == nil || len(w.Params) == 0 {
		return false
	}
	seqs, trunc := ConcPaths(w, ConcCfg{
		Init: func(st *ConcState) { st.SetNil(w.Params[0], true) },
		Event: func(in ssa.Instruction, st *ConcState) string {
			switch x := in.(type) {
			case ssa.CallInstruction:
				return "call"
			case *ssa.Store:
				return "store"
			case *ssa.FieldAddr:
				if Root(x.X) == ssa.Value(w.Params[0]) {
					return "deref"
				}
			case *ssa.Return:
				return "ret"
			}
			return ""
		},
	})
	ok := !trunc && len(seqs) > 0
	for _, sq := range seqs {
		if sq != "ret" {
			ok = false
		}
	}
	if ok {
		c.memoCEWrite = 1
	}
	return ok
}

func c5WriteGuard(c *Ctx) {
	c.EachRootFunc(func(fn *ssa.Function) {
		if fn.Pkg == nil || fn.Pkg.Pkg.Path() == CorePath {
			return
		}
		for _, cl := range Calls(fn) {
			if !IsCallTo(cl, "(*go.uber.org/zap/zapcore.CheckedEntry).Write") {
				continue
			}
			recv := Args(cl)[0]
			want := Desc(recv) + " != nil"
			ok := HasAtom(Guards(cl), func(s string) bool { return s == want })
			if !ok && ceWriteNilSafe(c) {
				// no test at the call site: Write makes it itself, before anything else
				c.OK("R5.5", FStr(fn), "write-under-nonnil", cl.Pos(), "ce.Write is called on whatever the check returned; CheckedEntry.Write returns at once, without touching anything, when its receiver is nil (decided by exploring Write with a nil receiver)")
				continue
			}
			c.Check(ok, "R5.5", FStr(fn), "write-under-nonnil", cl.Pos(), "ce.Write (and the evaluation of its field arguments in the same block) happens only under %s (guards %v)", want, AtomStrings(Guards(cl)))
		}
	})
}

func c5Atomic(c *Ctx) {
	al := c.Named(ZapPath, "AtomicLevel")
	if !c.Anchor("R5.6", "zap.AtomicLevel", al != nil) {
		return
	}
	st, _ := al.Underlying().(*types.Struct)
	ok := st != nil && st.NumFields() == 1 && TypeName(st.Field(0).Type()) == "*atomic.Int32"
	c.Check(ok, "R5.6", "go.uber.org/zap.AtomicLevel", "single-atomic-field", al.Obj().Pos(), "AtomicLevel's only state is one *atomic.Int32 (a second, non-atomic field could be read stale)")
	en := c.Method(ZapPath, "AtomicLevel", "Enabled")
	lv := c.Method(ZapPath, "AtomicLevel", "Level")
	sl := c.Method(ZapPath, "AtomicLevel", "SetLevel")
	if !c.Anchor("R5.6", "AtomicLevel.Enabled/Level/SetLevel", en != nil && lv != nil && sl != nil) {
		return
	}
	// evaluated concretely (helpers and zapcore.Level's methods inline): with the atomic's Load forked over every level
	// from one below to one above the range, Level() returns what was loaded, Enabled(l) answers l >= loaded for
	// every l - on each call afresh (exactly one Load per call) - and SetLevel(l) stores exactly l
	levels := []int64{-2, -1, 0, 1, 2, 3, 4, 5, 6}
	inl := func(h *ssa.Function) bool {
		return h.Pkg != nil && (h.Pkg.Pkg.Path() == ZapPath || h.Pkg.Pkg.Path() == CorePath)
	}
	forkLoad := func(in ssa.Instruction, st *ConcState) []ConcAlt {
		cl, ok := in.(*ssa.Call)
		if !ok || !IsCallTo(cl, "(*sync/atomic.Int32).Load") {
			return nil
		}
		var alts []ConcAlt
		for _, cur := range levels {
			alts = append(alts, ConcAlt{Ev: "load=" + itoa(int(cur)), Ints: map[ssa.Value]int64{cl: cur}})
		}
		return alts
	}
	retInt := func(in ssa.Instruction, st *ConcState) string {
		if r, ok := in.(*ssa.Return); ok && len(r.Results) == 1 {
			if k, known := st.Int(r.Results[0]); known {
				return "ret=" + itoa(int(k))
			}
			return "ret=?" + st.Desc(r.Results[0])
		}
		return ""
	}
	{
		var bad []string
		n := 0
		for _, l := range levels {
			lv0 := l
			seqs, trunc := ConcPaths(en, ConcCfg{
				Inline: inl, InlineAny: inl, Fork: forkLoad, Event: retInt,
				Conc: func(d string) (int64, bool) {
					if len(en.Params) == 2 && d == PN(en.Params[1]) {
						return lv0, true
					}
					return 0, false
				},
			})
			if trunc || len(seqs) == 0 {
				bad = append(bad, "exploration incomplete")
				continue
			}
			for _, sq := range seqs {
				n++
				f := strings.Split(sq, " ; ")
				ok := len(f) == 2 && strings.HasPrefix(f[0], "load=") && strings.HasPrefix(f[1], "ret=")
				if ok {
					cur := parseIntOr(f[0][5:], 99)
					want := int64(0)
					if lv0 >= cur {
						want = 1
					}
					ok = f[1] == "ret="+itoa(int(want))
				}
				if !ok {
					bad = append(bad, "l="+itoa(int(lv0))+": "+sq)
				}
			}
		}
		if len(bad) > 3 {
			bad = append(bad[:3:3], "…")
		}
		c.Check(len(bad) == 0 && n >= len(levels)*len(levels), "R5.6", FStr(en), "rereads", en.Pos(), "Enabled(l) loads the current level once, on this very call, and answers l >= current - evaluated for every pair of levels in -2..6 (%d evaluations): %v", n, bad)
	}
	{
		var bad []string
		seqs, trunc := ConcPaths(lv, ConcCfg{Inline: inl, InlineAny: inl, Fork: forkLoad, Event: retInt})
		for _, sq := range seqs {
			f := strings.Split(sq, " ; ")
			if len(f) != 2 || !strings.HasPrefix(f[0], "load=") || f[1] != "ret="+f[0][5:] {
				bad = append(bad, sq)
			}
		}
		c.Check(!trunc && len(seqs) >= len(levels) && len(bad) == 0, "R5.6", FStr(lv), "atomic-load", lv.Pos(), "Level() is one atomic Load and returns exactly the level loaded (every level -2..6): %v", bad)
	}
	{
		var bad []string
		n := 0
		for _, l := range levels {
			lv0 := l
			seqs, trunc := ConcPaths(sl, ConcCfg{
				Inline: inl, InlineAny: inl,
				Conc: func(d string) (int64, bool) {
					if len(sl.Params) == 2 && d == PN(sl.Params[1]) {
						return lv0, true
					}
					return 0, false
				},
				Event: func(in ssa.Instruction, st *ConcState) string {
					if cl, ok := in.(*ssa.Call); ok && IsCallTo(cl, "(*sync/atomic.Int32).Store") {
						where := st.Desc(Args(cl)[0])
						if k, known := st.Int(Args(cl)[1]); known {
							return "store(" + where + "," + itoa(int(k)) + ")"
						}
						return "store(" + where + ",?)"
					}
					return ""
				},
			})
			for _, sq := range seqs {
				n++
				if sq != "store("+PN(sl.Params[0])+".l,"+itoa(int(lv0))+")" {
					bad = append(bad, "l="+itoa(int(lv0))+": "+sq)
				}
			}
			if trunc || len(seqs) == 0 {
				bad = append(bad, "exploration incomplete")
			}
		}
		c.Check(len(bad) == 0 && n >= len(levels), "R5.6", FStr(sl), "atomic-store", sl.Pos(), "SetLevel(l) is one atomic Store of exactly l into the shared cell (every level -2..6): %v", bad)
	}
	c5PointerStable(c, "R5.6")
	// hook lists: registering hooks on a hooked core never shares the parent's slice tail (a sibling's hook would be
	// overwritten and fire for entries it never saw)
	if rh := c.Func(CorePath, "RegisterHooks"); rh != nil {
		c7Appends(c, "R5.6", rh)
	}
}

// ConstObjInt returns the integer value of a constant object.
func ConstObjInt(o *types.Const) (int64, bool) {
	v, exact := constant.Int64Val(constant.ToInt(o.Val()))
	return v, exact
}

// isCoreCountOf: v is the number of cores registered on checked entry `of`
// (len(of.cores)), possibly nil-guarded (φ(0, len)) or computed by a pure
// helper applied to `of`.
func isCoreCountOf(v ssa.Value, of ssa.Value, depth int) bool {
	if depth > 4 {
		return false
	}
	switch x := v.(type) {
	case *ssa.Call:
		if CallBuiltin(x) == "len" {
			if u, ok := x.Call.Args[0].(*ssa.UnOp); ok {
				if fa, ok := u.X.(*ssa.FieldAddr); ok && fieldName(fa.X.Type(), fa.Field) == "cores" {
					return Strip(fa.X) == Strip(of)
				}
			}
			return false
		}
		callee := x.Call.StaticCallee()
		if callee != nil && curProgRoot(callee) && len(x.Call.Args) == 1 && Strip(x.Call.Args[0]) == Strip(of) && sideEffectFree(callee, 0) {
			n := 0
			for _, r := range Returns(callee) {
				rv := RetVals(r)[0]
				if k, isC := ConstInt(rv); isC && k == 0 {
					continue
				}
				if !isCoreCountOf(rv, callee.Params[0], depth+1) {
					return false
				}
				n++
			}
			return n > 0
		}
	case *ssa.Phi:
		n := 0
		for _, e := range x.Edges {
			if k, isC := ConstInt(e); isC && k == 0 {
				continue
			}
			if !isCoreCountOf(e, of, depth+1) {
				return false
			}
			n++
		}
		return n > 0
	}
	return false
}

// c5NewTee: by bounded concrete exploration of NewTee for 0, 1, 2 and 3 cores: no cores give the no-op core, one core
// gives that core itself, more give a tee over all of them in order - on every path, whatever the cores enable at the
// time (a branch that enables nothing when the tee is built may be switched on later).
func c5NewTee(c *Ctx, rule string) {
	cKeepsAll(c, rule, c.Func(CorePath, "NewTee"), "zapcore.NewTee", "ret(nop)")
}

// cKeepsAll: a variadic combinator (NewTee, NewMultiWriteSyncer) hands out, for one argument, that argument itself
// and, for more, a combination over all of them in order; `empty` is what it returns for none. Paths on which an
// argument is recognised as a combination itself (a type test on an element succeeds) are left alone.
func cKeepsAll(c *Ctx, rule string, fn *ssa.Function, anchor, empty string) {
	if !c.Anchor(rule, anchor, fn != nil && len(fn.Params) == 1) {
		return
	}
	cores := fn.Params[0]
	resolve := func(st *ConcState, v ssa.Value) ssa.Value {
		for k := 0; k < 16 && v != nil; k++ {
			switch x := v.(type) {
			case *ssa.ChangeType:
				v = x.X
				continue
			case *ssa.MakeInterface:
				v = x.X
				continue
			}
			nx := st.Step(v)
			if nx == nil {
				break
			}
			v = nx
		}
		return v
	}
	elemIndex := func(st *ConcState, v ssa.Value) string {
		u, ok := resolve(st, v).(*ssa.UnOp)
		if ok && u.Op == token.MUL {
			if ia, ok := u.X.(*ssa.IndexAddr); ok {
				if f, ok := st.SliceOf(ia.X); ok && f.Base == ssa.Value(cores) {
					if k, ok := st.Int(ia.Index); ok {
						return itoa(int(f.Lo + k))
					}
				}
			}
		}
		return "?" + st.Desc(v)
	}
	var bad []string
	paths := 0
	for N := int64(0); N <= int64(depth(3, 5)); N++ {
		n := N
		seqs, trunc := ConcPaths(fn, ConcCfg{
			MaxIter:  int(N) + 1,
			SliceLen: func(p *ssa.Parameter) (int64, bool) { return n, p == cores },
			Branch: func(cond ssa.Value, taken bool, st *ConcState) string {
				for k := 0; k < 8; k++ {
					if nx := st.Step(cond); nx != nil {
						cond = nx
						continue
					}
					break
				}
				if ex, ok := cond.(*ssa.Extract); ok && ex.Index == 1 {
					if ta, ok := ex.Tuple.(*ssa.TypeAssert); ok && !strings.HasPrefix(elemIndex(st, ta.X), "?") && taken {
						return "nested"
					}
				}
				return ""
			},
			Event: func(in ssa.Instruction, st *ConcState) string {
				switch x := in.(type) {
				case *ssa.Store:
					if ia, ok := x.Addr.(*ssa.IndexAddr); ok {
						if _, isIface := types.Unalias(x.Val.Type()).Underlying().(*types.Interface); isIface {
							if _, isArr := types.Unalias(deref(ia.X.Type())).Underlying().(*types.Array); !isArr {
								return "put(" + elemIndex(st, x.Val) + ")"
							}
						}
					}
				case *ssa.Call:
					if CallBuiltin(x) == "append" {
						if sl, ok := types.Unalias(x.Type()).Underlying().(*types.Slice); ok {
							if _, isIface := types.Unalias(sl.Elem()).Underlying().(*types.Interface); isIface {
								_, elems := appendParts(x)
								if len(elems) == 0 {
									if f, ok := st.SliceOf(x.Call.Args[1]); ok && f.Base == ssa.Value(cores) {
										var out []string
										for k := f.Lo; k < f.Hi; k++ {
											out = append(out, "put("+itoa(int(k))+")")
										}
										return strings.Join(out, " ; ")
									}
									return "put(?)"
								}
								var out []string
								for _, e := range elems {
									out = append(out, "put("+elemIndex(st, e)+")")
								}
								return strings.Join(out, " ; ")
							}
						}
					}
				case *ssa.Return:
					if f, ok := st.SliceOf(x.Results[0]); ok && f.Base == ssa.Value(cores) {
						return "ret(cores[" + itoa(int(f.Lo)) + ":" + itoa(int(f.Hi)) + "])"
					}
					r := resolve(st, x.Results[0])
					if cl, ok := r.(*ssa.Call); ok && IsCallTo(cl, CorePath+".NewNopCore") {
						return "ret(nop)"
					}
					if i := elemIndex(st, x.Results[0]); !strings.HasPrefix(i, "?") {
						return "ret(core " + i + ")"
					}
					switch r.(type) {
					case *ssa.MakeSlice, *ssa.Call:
						return "ret(new)"
					}
					return "ret(?" + st.Desc(x.Results[0]) + ")"
				}
				return ""
			},
		})
		if trunc || len(seqs) == 0 {
			c.Und(rule, FStr(fn), "keeps-every-core", fn.Pos(), "path exploration incomplete for %d cores", N)
			return
		}
		for _, sq := range seqs {
			if strings.Contains(sq, "nested") {
				continue
			}
			paths++
			var want []string
			switch N {
			case 0:
				want = []string{empty}
			case 1:
				want = []string{"ret(core 0)"}
			}
			ok := false
			if want != nil {
				ok = sq == want[0]
			} else {
				whole := "ret(cores[0:" + itoa(int(N)) + "])"
				var puts []string
				for k := int64(0); k < N; k++ {
					puts = append(puts, "put("+itoa(int(k))+")")
				}
				ok = sq == whole || sq == strings.Join(puts, " ; ")+" ; ret(new)"
			}
			if !ok {
				bad = append(bad, itoa(int(N))+" cores: "+sq)
			}
		}
	}
	if len(bad) > 3 {
		bad = append(bad[:3:3], "… "+itoa(len(bad)-3)+" more")
	}
	c.Check(len(bad) == 0, rule, FStr(fn), "keeps-every-core", fn.Pos(), "over %d paths for 0..3 cores: none → the no-op core, one → that core itself, more → a tee over all of them in order, on every path: %v", paths, bad)
}

// c5PointerStable: see the comment inside.
func c5PointerStable(c *Ctx, rule string) {
	al := c.Named(ZapPath, "AtomicLevel")
	if !c.Anchor(rule, "zap.AtomicLevel", al != nil) {
		return
	}
	// the counter an AtomicLevel points at is what its copies (held by cores and loggers) share: a method may
	// install a counter only where there was none (lazy allocation), never replace one
	ms := c.SSA.MethodSets.MethodSet(types.NewPointer(al))
	for i := 0; i < ms.Len(); i++ {
		fn := c.SSA.MethodValue(ms.At(i))
		if fn == nil || len(fn.Blocks) == 0 || fn.Synthetic != "" || len(fn.Params) == 0 {
			continue
		}
		if _, isPtr := types.Unalias(fn.Params[0].Type()).(*types.Pointer); !isPtr {
			continue
		}
		recv := fn.Params[0]
		k := 0
		for _, f := range Region(fn) {
			AllInstrs(f, func(in ssa.Instruction) {
				stI, ok := in.(*ssa.Store)
				if !ok {
					return
				}
				var rootD string
				Bound(func() { rootD = Desc(Root(stI.Addr)) })
				if Root(stI.Addr) != ssa.Value(recv) && rootD != PN(recv) {
					return
				}
				k++
				var g []string
				Bound(func() { g = AtomStrings(Guards(stI)) })
				lazy := containsS(g, PN(recv)+".l == nil")
				c.Check(lazy, rule, FStr(fn), "pointer-stable#"+itoa(k), stI.Pos(), "a store through the *AtomicLevel receiver (%s) happens only where no counter existed yet (guards %v); replacing the counter detaches every logger built from an earlier copy, which then never sees later level changes", Desc(stI.Addr), g)
			})
		}
	}
}

// c5IncreaseOption: by path exploration of the option zap.IncreaseLevel returns (its function literal, helpers inline,
// the constructor's outcome forked): on every path NewIncreaseLevelCore is called on the logger's current core and the
// given enabler; when it succeeded the logger's core is replaced by exactly that result, when it failed the core is
// left alone. A shortcut that skips the filter (because the levels are equal at the time the option is applied, say)
// lets a later change of a shared AtomicLevel, or a non-monotone enabler, deliver entries the filter would have stopped.
func c5IncreaseOption(c *Ctx, rule string) {
	fn := c.Func(ZapPath, "IncreaseLevel")
	ctor := c.Func(CorePath, "NewIncreaseLevelCore")
	if !c.Anchor(rule, "zap.IncreaseLevel / zapcore.NewIncreaseLevelCore", fn != nil && ctor != nil) {
		return
	}
	// the function literal the option wraps
	var lit *ssa.Function
	for _, f := range fn.AnonFuncs {
		if len(f.Params) == 1 && strings.HasSuffix(TypeName(f.Params[0].Type()), "zap.Logger") {
			lit = f
		}
	}
	if !c.Anchor(rule, "the func(*Logger) literal of zap.IncreaseLevel", lit != nil) {
		return
	}
	logP := lit.Params[0]
	resolve := func(st *ConcState, v ssa.Value) ssa.Value {
		for k := 0; k < 12; k++ {
			nx := st.Step(v)
			if nx == nil {
				break
			}
			v = nx
		}
		return v
	}
	var theCall *ssa.Call
	seqs, trunc := ConcPaths(lit, ConcCfg{
		Fork: func(in ssa.Instruction, st *ConcState) []ConcAlt {
			x, ok := in.(*ssa.Extract)
			if !ok || x.Index != 1 {
				return nil
			}
			if cl, isC := x.Tuple.(*ssa.Call); isC && cl.Call.StaticCallee() == ctor {
				return []ConcAlt{{Ev: "built", Nils: map[ssa.Value]bool{x: true}}, {Ev: "refused", Nils: map[ssa.Value]bool{x: false}}}
			}
			return nil
		},
		Event: func(in ssa.Instruction, st *ConcState) string {
			switch x := in.(type) {
			case *ssa.Call:
				if x.Call.StaticCallee() == ctor && len(x.Call.Args) == 2 {
					theCall = x
					a0 := resolve(st, x.Call.Args[0])
					okCore := false
					if ld, isLd := a0.(*ssa.UnOp); isLd {
						if fa, isFA := ld.X.(*ssa.FieldAddr); isFA && fieldName(fa.X.Type(), fa.Field) == "core" && resolve(st, fa.X) == ssa.Value(logP) {
							okCore = true
						}
					}
					if okCore {
						return "ask"
					}
					return "ask?" + st.Desc(x.Call.Args[0])
				}
			case *ssa.Store:
				if fa, ok := x.Addr.(*ssa.FieldAddr); ok && fieldName(fa.X.Type(), fa.Field) == "core" && resolve(st, fa.X) == ssa.Value(logP) {
					v := resolve(st, x.Val)
					if ex, isEx := v.(*ssa.Extract); isEx && ex.Index == 0 && theCall != nil && ex.Tuple == ssa.Value(theCall) {
						return "install"
					}
					return "install?" + st.Desc(x.Val)
				}
			case *ssa.Return:
				return "ret"
			}
			return ""
		},
	})
	var bad []string
	for _, sq := range seqs {
		if sq != "ask ; built ; install ; ret" && sq != "ask ; refused ; ret" {
			bad = append(bad, sq)
		}
	}
	c.Check(!trunc && len(seqs) >= 2 && len(bad) == 0, rule, FStr(fn), "always-filters", fn.Pos(), "every path of the option asks NewIncreaseLevelCore(log.core, lvl) and installs the result exactly when it was built (%d paths; offending: %v)", len(seqs), bad)
}

// c5LevelValues: the Level constants by their short names (Debug … Fatal).
func c5LevelValues(c *Ctx) map[string]int64 {
	lv := map[string]int64{}
	for _, n := range levelNames {
		if v, ok := c.ConstVal(CorePath, n+"Level"); ok {
			lv[n] = v
		}
	}
	return lv
}

// c5CheckDiscipline: R5.1 for every zapcore.Core implementation; returns the implementations (nil when the interface
// does not resolve).
func c5CheckDiscipline(c *Ctx) []*types.Named {
	iface := c.coreIface()
	if !c.Anchor("R5.1", "zapcore.Core", iface != nil) {
		return nil
	}
	impls := c.Implementers(iface)
	for _, t := range impls {
		tn := t.Obj().Pkg().Path() + "." + TNm(t.Obj())
		class, ok := coreClass[tn]
		if !ok {
			c.Und("R5.1", tn, "class", t.Obj().Pos(), "new zapcore.Core implementation %s: not in the class table (leaf/filter/tee/passthrough/hookwrapper); classify it before the Check rule can be decided", tn)
			continue
		}
		fn := c.Method(t.Obj().Pkg().Path(), TNm(t.Obj()), "Check")
		if fn == nil || RecvNamed(fn) == nil || RecvNamed(fn).Obj() != t.Obj() {
			c.Und("R5.1", tn, "Check", t.Obj().Pos(), "type has no Check method of its own (promoted?)")
			continue
		}
		c5Check(c, tn, class, fn)
	}
	for tn := range coreClass {
		found := false
		for _, t := range impls {
			if t.Obj().Pkg().Path()+"."+TNm(t.Obj()) == tn {
				found = true
			}
		}
		if !found {
			c.Und("R5.1", tn, "anchor", token.NoPos, "class table names %s but no such Core implementation exists", tn)
		}
	}

	return impls
}

// c5HookedCountsBefore: hooked.Check decides "did the wrapped core accept?" by comparing the number of cores registered
// on the checked entry before and after asking it. The "before" is read from the incoming entry ahead of the
// delegation on every path (read afterwards it already includes the wrapped core - the incoming entry and the result
// are the same object - and the hooks are silently skipped behind an accepting tee branch).
func c5HookedCountsBefore(c *Ctx, rule string) {
	fn := c.Method(CorePath, "hooked", "Check")
	if !c.Anchor(rule, "zapcore.hooked.Check", fn != nil && len(fn.Params) == 3) {
		return
	}
	ceP := fn.Params[2]
	resolve := func(st *ConcState, v ssa.Value) ssa.Value {
		for k := 0; k < 12; k++ {
			nx := st.Step(v)
			if nx == nil {
				break
			}
			v = nx
		}
		return v
	}
	seqs, trunc := ConcPaths(fn, ConcCfg{
		Init: func(st *ConcState) { st.SetNil(ceP, false) },
		Event: func(in ssa.Instruction, st *ConcState) string {
			switch x := in.(type) {
			case *ssa.UnOp:
				if fa, ok := x.X.(*ssa.FieldAddr); ok && x.Op == token.MUL && fieldName(fa.X.Type(), fa.Field) == "cores" && resolve(st, fa.X) == ssa.Value(ceP) {
					return "count(incoming)"
				}
			case *ssa.Call:
				if IsCallTo(x, "(go.uber.org/zap/zapcore.Core).Check") {
					return "delegate"
				}
				if IsCallTo(x, "(*go.uber.org/zap/zapcore.CheckedEntry).AddCore") {
					return "register"
				}
			}
			return ""
		},
	})
	var bad []string
	nReg := 0
	for _, sq := range seqs {
		if !strings.Contains(sq, "register") {
			continue
		}
		nReg++
		i1, i2 := strings.Index(sq, "count(incoming)"), strings.Index(sq, "delegate")
		// a design that needs no count (registers whenever the wrapped core's own answer says so) has no count at all
		if i1 >= 0 && i2 >= 0 && i1 > i2 {
			bad = append(bad, sq)
		}
	}
	c.Check(!trunc && len(seqs) > 0 && nReg > 0 && len(bad) == 0, rule, FStr(fn), "counts-before-delegating", fn.Pos(), "with a non-nil incoming entry, on every path that registers the hooks the number of cores already accepted is read from the incoming entry before the wrapped core is asked (offending: %v)", bad)
}

// c5GrpcPrinterOptions: an option of the gRPC adapter that installs another printer (WithDebug, the unexported
// withWarn) builds it consistently: print is the delegate's method of some level, printf the printf-style method of
// the same level, and the printer's own level - what Println pre-checks - is evidently that level's constant. (A
// printer copied from the default one keeps the default's level: Println then pre-checks Info and emits at Debug.)
func c5GrpcPrinterOptions(c *Ctx, rule string) {
	gp := "go.uber.org/zap/zapgrpc"
	pr := c.Named(gp, "printer")
	if !c.Anchor(rule, "zapgrpc.printer", pr != nil) {
		return
	}
	lv := c5LevelValues(c)
	n := 0
	c.EachRootFunc(func(fn *ssa.Function) {
		if fn.Pkg == nil || fn.Pkg.Pkg.Path() != gp || FNm(fn) == "NewLogger" {
			return
		}
		stores := false
		AllInstrs(fn, func(in ssa.Instruction) {
			if x, ok := in.(*ssa.Store); ok {
				if fa, isFA := x.Addr.(*ssa.FieldAddr); isFA && TypeName(deref(fa.X.Type())) == "zapgrpc.Logger" {
					if w := fieldName(fa.X.Type(), fa.Field); w == "print" || w == "fatal" {
						stores = true
					}
				}
			}
		})
		if !stores {
			return
		}
		n++
		var bad []string
		seqs, trunc := ConcPaths(fn, ConcCfg{
			Event: func(in ssa.Instruction, st *ConcState) string {
				x, ok := in.(*ssa.Store)
				if !ok {
					return ""
				}
				fa, isFA := x.Addr.(*ssa.FieldAddr)
				if !isFA || TypeName(deref(fa.X.Type())) != "zapgrpc.Logger" {
					return ""
				}
				which := fieldName(fa.X.Type(), fa.Field)
				if which != "print" && which != "fatal" {
					return ""
				}
				bound := func(f string) string {
					_, _, v := st.FieldOf(x.Val, f)
					for k := 0; v != nil && k < 16; k++ {
						nx := st.Step(v)
						if nx == nil {
							break
						}
						v = nx
					}
					if mk, isMk := v.(*ssa.MakeClosure); isMk && len(mk.Bindings) == 1 {
						return strings.TrimSuffix(mk.Fn.Name(), "$bound")
					}
					return "?"
				}
				p, pf := bound("print"), bound("printf")
				k, isInt, _ := st.FieldOf(x.Val, "level")
				want, known := lv[p]
				switch {
				case p == "?" && pf == "?":
					// the other design: {the delegate, level}: nothing to keep consistent
				case !known || pf != p+"f":
					bad = append(bad, which+": print="+p+" printf="+pf+" are not the two methods of one level")
				case !isInt:
					bad = append(bad, which+": print="+p+" but the printer's level is not evidently set (a copy of another printer keeps that one's level)")
				case k != want:
					bad = append(bad, which+": print="+p+" but level="+itoa(int(k)))
				}
				return which
			},
		})
		c.Check(!trunc && len(seqs) > 0 && len(bad) == 0, rule, FuncKey(fn), "printer-level-matches-functions", fn.Pos(), "the printer installed here logs (print, printf) and pre-checks (level) at one and the same level: %v", uniqSorted(bad))
	})
	if n < 2 {
		c.Bad(rule, "zapgrpc options", "count", token.NoPos, "expected at least two options that install a printer (WithDebug, withWarn), found %d", n)
	}
}

// c5TeeEnabled: multiCore.Enabled(lvl) reaches an invoke of Core.Enabled (a branch asked about the level itself) and
// reaches no Level()/LevelOf/Level.Enabled - the answer is never taken from the tee's minimum level.
func c5TeeEnabled(c *Ctx, rule string) {
	fn := c.Method(CorePath, "multiCore", "Enabled")
	if !c.Anchor(rule, "zapcore.multiCore.Enabled", fn != nil && len(fn.Blocks) > 0) {
		return
	}
	seen := map[*ssa.Function]bool{}
	asks := 0
	var bad []string
	var rec func(f *ssa.Function, depth int)
	rec = func(f *ssa.Function, depth int) {
		if f == nil || seen[f] || depth > 4 || len(f.Blocks) == 0 || !curProgRoot(f) {
			return
		}
		seen[f] = true
		for _, g := range WithClosures(f) {
			seen[g] = true
			for _, cl := range Calls(g) {
				cc := cl.Common()
				if cc.IsInvoke() {
					if cc.Method.Name() == "Enabled" && len(cc.Args) == 1 && TypeName(cc.Args[0].Type()) == "zapcore.Level" {
						asks++
					}
					if cc.Method.Name() == "Level" && cc.Signature().Params().Len() == 0 {
						bad = append(bad, FNm(g)+" asks a reported level ("+cc.Method.FullName()+")")
					}
					continue
				}
				sc := StaticCallee(cl)
				if sc == nil {
					continue
				}
				sig := sc.Signature
				if res := sig.Results(); res.Len() == 1 && TypeName(res.At(0).Type()) == "zapcore.Level" && g != sc {
					bad = append(bad, FNm(g)+" takes a reported level from "+FStr(sc))
					continue
				}
				if rn := RecvNamed(sc); rn != nil && TypeName(rn) == "zapcore.Level" && sig.Results().Len() == 1 && TypeName(sig.Results().At(0).Type()) == "bool" {
					bad = append(bad, FNm(g)+" answers from a level value ("+FStr(sc)+")")
					continue
				}
				rec(sc, depth+1)
			}
		}
	}
	rec(fn, 0)
	c.Check(asks > 0 && len(bad) == 0, rule, FStr(fn), "asks-the-branches", fn.Pos(), "the tee's Enabled reaches an Enabled call on a branch with the level asked about (%d) and no reported minimum level (%v)", asks, bad)
}
