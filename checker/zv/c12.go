package zv

import (
	"fmt"
	"go/token"
	"go/types"
	"os"
	"regexp"
	"sort"
	"strings"

	"golang.org/x/tools/go/ssa"
)

func init() {
	Props["C12"] = Prop{
		Title: "BufferedWriteSyncer delivers every byte once, in order, in whole writes",
		Fn:    checkC12,
		Explanation: "Decides the structural part of the buffered syncer: every access to its mutable state happens with its mutex held (frozen guarded-by table; initialize is only called with the lock held; the flush loop reads only fields written before its go statement); Write buffers the ORIGINAL parameter in exactly one bufio write and flushes first exactly when the write does not fit and the buffer is non-empty, returning (0, err) on a flush error; Sync flushes (when initialised) and then always syncs the sink; the Stop protocol (flag tested and set in one critical section, ticker stopped and stop channel closed only on the path that set it, the wait for the flush goroutine happens with the mutex released, a final Sync follows, the other paths return without blocking); the flush loop closes done on exit, exits only on stop, and calls Sync on every tick; initialize contains the single go statement. " +
			"Also decided: every call into the wrapped sink or the bufio writer (Write, Flush, Sync) is made with the mutex held on every path, so the sink needs no lock of its own. " +
			"NOT decided: bufio.Writer's byte-exact behaviour (trusted), timing, the prefix property after kill -9, the interleavings themselves.",
		Assumptions: commonAssumptions,
	}
}

var bwsGuarded = map[string]bool{"initialized": true, "stopped": true, "writer": true, "ticker": true, "stop": true, "done": true, "Clock": true}

// guardedBy checks the accesses of a struct's guarded fields against a mutex field.
func guardedBy(c *Ctx, rule string, named *types.Named, guarded map[string]bool, mutexField string, entryHeld map[string]bool, exempt func(a Access) string) int {
	n := 0
	held := map[*ssa.Function]map[ssa.Instruction]LockSet{}
	for _, a := range c.FieldAccesses(named, guarded) {
		if a.Field == mutexField {
			continue
		}
		n++
		fname := FuncKey(a.Fn)
		slot := a.Field + map[bool]string{true: "/write", false: "/read"}[a.Write] + "@" + relLine(c, a)
		if IsFresh(a.Base) {
			c.Triv(rule, fname, slot, a.Instr.Pos(), "access on an object allocated in this function (not yet shared)")
			continue
		}
		if why := exempt(a); why != "" {
			c.Triv(rule, fname, slot, a.Instr.Pos(), "exempt: %s", why)
			continue
		}
		h, ok := held[a.Fn]
		if !ok {
			entry := EntryLockset(a.Fn)
			if entryHeld[a.Fn.String()] {
				entry[Desc(a.Base)+"."+mutexField] = 1
			}
			h = MustHeld(a.Fn, entry)
			held[a.Fn] = h
		}
		m := Desc(a.Base) + "." + mutexField
		k := h[a.Instr][m]
		ok2 := k == 1 || (k == 2 && !a.Write)
		c.Check(ok2, rule, fname, slot, a.Instr.Pos(), "%s of %s.%s with lockset %s (needs %s%s)", map[bool]string{true: "write", false: "read"}[a.Write], Desc(a.Base), a.Field, h[a.Instr], map[bool]string{true: "W:", false: "R/W:"}[a.Write], m)
	}
	return n
}

// relLine gives a position-independent-ish discriminator: ordinal of this access within its function.
func relLine(c *Ctx, a Access) string {
	idx := 0
	AllInstrs(a.Fn, func(i ssa.Instruction) {
		if i.Pos() != token.NoPos && i.Pos() < a.Instr.Pos() {
			idx++
		}
	})
	return itoa(idx)
}

func checkC12(c *Ctx) {
	c.Rule("R12.1", "every access to BufferedWriteSyncer's mutable state holds its mutex", 10)
	c.Rule("R12.2", "Write: one buffered write of the original parameter; flush first exactly when it does not fit and the buffer is non-empty", 3)
	c.Rule("R12.3", "Sync flushes when initialised and always syncs the sink", 2)
	c.Rule("R12.4", "Stop protocol: atomic test-and-set, close once, wait unlocked, final Sync, non-blocking otherwise", 4)
	c.Rule("R12.5", "flush loop: done closed on exit, exits only on stop, Sync on every tick; single go statement in initialize", 3)
	c12Rules(c, "R12.1", "R12.2", "R12.3", "R12.4", "R12.5")
	c.Rule("R12.6", "every call into the wrapped sink or its bufio writer (Write, Flush, Sync) runs with the mutex held: the sink needs no lock of its own", 2)
	for _, m := range []string{"Write", "Sync"} {
		fb := c.Method(CorePath, "BufferedWriteSyncer", m)
		if c.Anchor("R12.6", "zapcore.BufferedWriteSyncer."+m, fb != nil) {
			LockedAcross(c, "R12.6", fb, func(cl ssa.CallInstruction) bool {
				return IsCallTo(cl, "(*bufio.Writer).Write", "(*bufio.Writer).Flush", "(go.uber.org/zap/zapcore.WriteSyncer).Sync")
			}, ".mu")
		}
	}
}

// c12SinkOwnership: the sink of a BufferedWriteSyncer is written only through
// its bufio.Writer, and that writer's pending bytes are never discarded.
func c12SinkOwnership(c *Ctx, rule string) {
	bws := c.Named(CorePath, "BufferedWriteSyncer")
	if !c.Anchor(rule, "zapcore.BufferedWriteSyncer", bws != nil) {
		return
	}
	var direct, discard []string
	n := 0
	c.EachRootFunc(func(fn *ssa.Function) {
		for _, cl := range Calls(fn) {
			args := Args(cl)
			if len(args) == 0 {
				continue
			}
			a0 := args[0]
			fa, isFA := fieldOfNamed(a0, bws)
			if !isFA {
				continue
			}
			n++
			f := CalleeFunc(cl)
			if f == nil || f.Type().(*types.Signature).Recv() == nil {
				continue // the field is passed as an argument (bufio.NewWriterSize(s.WS, n)), not called
			}
			switch {
			case fa == "WS" && f.Name() != "Sync":
				direct = append(direct, FuncKey(fn)+": "+Desc(a0)+"."+f.Name())
			case fa == "writer" && (f.Name() == "Reset" || f.Name() == "ReadFrom"):
				discard = append(discard, FuncKey(fn)+": "+Desc(a0)+"."+f.Name())
			}
		}
	})
	c.Check(len(direct) == 0 && n >= 4, rule, CorePath+".BufferedWriteSyncer", "sink-only-through-buffer", bws.Obj().Pos(), "of the wrapped WriteSyncer only Sync is called directly; every byte goes through the bufio.Writer, which keeps the order, turns short writes into errors and makes errors sticky (direct calls: %v; %d calls on WS/writer inspected)", direct, n)
	c.Check(len(discard) == 0, rule, CorePath+".BufferedWriteSyncer", "buffer-never-discarded", bws.Obj().Pos(), "the bufio.Writer is never Reset (that would silently drop bytes already accepted): %v", discard)
}

// fieldOfNamed: v is (a load of) field F of a value of the named struct type; returns F.
func fieldOfNamed(v ssa.Value, named *types.Named) (string, bool) {
	v = Strip(v)
	if u, ok := v.(*ssa.UnOp); ok && u.Op == token.MUL {
		v = u.X
	}
	var x ssa.Value
	var idx int
	switch fa := v.(type) {
	case *ssa.FieldAddr:
		x, idx = fa.X, fa.Field
	case *ssa.Field:
		x, idx = fa.X, fa.Field
	default:
		return "", false
	}
	t := x.Type()
	if p, ok := types.Unalias(t).Underlying().(*types.Pointer); ok {
		t = p.Elem()
	}
	n, ok := types.Unalias(t).(*types.Named)
	if !ok || n.Obj() != named.Obj() {
		return "", false
	}
	return fieldName(x.Type(), idx), true
}

func c12Rules(c *Ctx, r1, r2, r3, r4, r5 string) {
	bws := c.Named(CorePath, "BufferedWriteSyncer")
	if !c.Anchor(r1, "zapcore.BufferedWriteSyncer", bws != nil) {
		return
	}
	initFn := c.Method(CorePath, "BufferedWriteSyncer", "initialize")
	loop := c.Method(CorePath, "BufferedWriteSyncer", "flushLoop")
	write := c.Method(CorePath, "BufferedWriteSyncer", "Write")
	sync := c.Method(CorePath, "BufferedWriteSyncer", "Sync")
	stop := c.Method(CorePath, "BufferedWriteSyncer", "Stop")
	if !c.Anchor(r1, "BufferedWriteSyncer.initialize/flushLoop/Write/Sync/Stop", initFn != nil && loop != nil && write != nil && sync != nil && stop != nil) {
		return
	}
	if r1 != "" {
		// initialize: all callers hold the lock
		entry := map[string]bool{}
		callers := c.CallersOf("(*go.uber.org/zap/zapcore.BufferedWriteSyncer).initialize")
		allHeld := len(callers) > 0
		for _, cl := range callers {
			h := MustHeld(cl.Parent(), nil)
			m := Desc(Args(cl)[0]) + ".mu"
			ok := h[cl][m] == 1
			notInit := HasAtom(Guards(cl), func(s string) bool { return s == "!"+Desc(Args(cl)[0])+".initialized" })
			c.Check(ok && notInit, r1, FuncKey(cl.Parent()), "initialize-called-locked", cl.Pos(), "initialize() is called with %s held and only under !initialized (lockset %s, guards %v)", m, h[cl], AtomStrings(Guards(cl)))
			allHeld = allHeld && ok
		}
		if allHeld {
			entry[initFn.String()] = true
		}
		guardedBy(c, r1, bws, bwsGuarded, "mu", entry, func(a Access) string {
			if (a.Fn == loop || onlyCalledFrom(a.Fn, loop, 0)) && !a.Write && (a.Field == "ticker" || a.Field == "stop" || a.Field == "done") {
				return "flushLoop reads ticker/stop/done, which are written once in initialize before the go statement that starts it (happens-before) and never again"
			}
			if a.Fn == stop && !a.Write && a.Field == "done" && len(Guards(a.Instr)) > 0 {
				return "Stop reads done after its own critical section observed initialized == true; done is written once, in initialize, under the same mutex (happens-before through the lock)"
			}
			return ""
		})
		// ... and indeed never again: writers of ticker/stop/done/writer are only initialize
		for _, a := range c.FieldAccesses(bws, map[string]bool{"ticker": true, "stop": true, "done": true, "writer": true}) {
			if a.Write && !a.Esc {
				c.Check(a.Fn == initFn, r1, FuncKey(a.Fn), "written-once/"+a.Field, a.Instr.Pos(), "%s is assigned only in initialize", a.Field)
			}
		}
	}
	if r2 != "" {
		c12SinkOwnership(c, r2)
		name := write.String()
		p := writeParam(write)
		var bw []*ssa.Call
		var flush *ssa.Call
		for _, cl := range CallsDeep(write) {
			if IsCallTo(cl, "(*bufio.Writer).Write") {
				bw = append(bw, cl.(*ssa.Call))
			}
			if IsCallTo(cl, "(*bufio.Writer).Flush") {
				flush, _ = cl.(*ssa.Call)
			}
		}
		origParam := false
		if len(bw) == 1 {
			Bound(func() { origParam = Desc(bw[0].Call.Args[1]) == p.Name() })
			origParam = origParam || bw[0].Call.Args[1] == ssa.Value(p)
		}
		c.Check(len(bw) == 1 && origParam, r2, name, "single-whole-write", write.Pos(), "exactly one bufio write, of the original parameter (a re-sliced or split payload would tear a line)")
		if flush == nil || len(bw) != 1 {
			c.Bad(r2, name, "flush-before-write", write.Pos(), "no Flush call before the buffered write")
		} else {
			// Path exploration (helpers inline): on which paths is the buffer flushed before the write?
			recv := write.Params[0].Name()
			wD := recv + ".writer"
			norm := func(d string) string {
				d = strings.ReplaceAll(d, "(Size("+wD+") - Buffered("+wD+"))", "Available("+wD+")")
				return d
			}
			// classify a branch condition: "fit" (the payload does not fit: len(p) > Available), "pending" (Buffered > 0)
			classCond := func(cond ssa.Value, st *ConcState) (string, bool) {
				pol := true
				for k := 0; k < 8; k++ {
					if u, ok := cond.(*ssa.UnOp); ok && u.Op == token.NOT {
						cond, pol = u.X, !pol
						continue
					}
					if nx := st.Step(cond); nx != nil {
						cond = nx
						continue
					}
					break
				}
				bo, ok := cond.(*ssa.BinOp)
				if !ok {
					return "", false
				}
				x, y, op := norm(st.Desc(bo.X)), norm(st.Desc(bo.Y)), bo.Op
				lenP, avail, buf := "len("+p.Name()+")", "Available("+wD+")", "Buffered("+wD+")"
				if x == avail && y == lenP || x == "0" && y == buf {
					x, y, op = y, x, swapOp(op)
				}
				switch {
				case x == lenP && y == avail && op == token.GTR:
					return "nofit", pol
				case x == lenP && y == avail && op == token.LEQ:
					return "nofit", !pol
				case x == buf && y == "0" && (op == token.GTR || op == token.NEQ):
					return "pending", pol
				case x == buf && y == "0" && (op == token.LEQ || op == token.EQL):
					return "pending", !pol
				}
				return "", false
			}
			seqs, trunc := ConcPaths(write, ConcCfg{
				Event: func(in ssa.Instruction, st *ConcState) string {
					if cl, ok := in.(*ssa.Call); ok {
						if IsCallTo(cl, "(*bufio.Writer).Flush") {
							return "flush"
						}
						if IsCallTo(cl, "(*bufio.Writer).Write") {
							return "write"
						}
					}
					return ""
				},
				Branch: func(cond ssa.Value, taken bool, st *ConcState) string {
					k, v := classCond(cond, st)
					if k == "" {
						if os.Getenv("ZV_DEBUG") != "" {
							return "?" + st.Desc(cond) + fmt.Sprint(st.fmem)
						}
						return ""
					}
					if v == taken {
						return k + "=T"
					}
					return k + "=F"
				},
			})
			var bad []string
			nFlush := 0
			for _, sq := range seqs {
				ev := strings.Split(sq, " ; ")
				fl, wr := -1, -1
				facts := map[string]bool{}
				for i, e := range ev {
					switch e {
					case "flush":
						if fl < 0 {
							fl = i
						}
					case "write":
						wr = i
					default:
						if wr < 0 && fl < 0 {
							facts[e] = true
						}
					}
				}
				if fl >= 0 {
					nFlush++
					if !(facts["nofit=T"] && facts["pending=T"]) {
						bad = append(bad, "flushes without having established both conditions: "+sq)
					}
				} else if wr >= 0 && !(facts["nofit=F"] || facts["pending=F"]) {
					bad = append(bad, "writes without a flush although neither condition was found false: "+sq)
				}
			}
			if trunc || len(seqs) == 0 {
				c.Und(r2, name, "flush-condition", flush.Pos(), "path exploration of Write incomplete (%d, truncated=%v)", len(seqs), trunc)
			} else {
				c.Check(len(bad) == 0 && nFlush > 0, r2, name, "flush-condition", flush.Pos(), "over all %d paths of Write (helpers inline) the buffer is flushed first exactly when the payload does not fit (len(p) > Available) and something is pending (Buffered > 0); any further conjunct would let bufio split an oversized write across two sink writes: %v", len(seqs), bad)
			}
			c.Check(!ExistsPath(write, bw[0], func(i ssa.Instruction) bool { return i == ssa.Instruction(flush) }, nil), r2, name, "flush-precedes", flush.Pos(), "the flush never follows the write")
			okErr := false
			for _, r := range Returns(write) {
				rv := RetVals(r)
				if mayCarry(Strip(rv[1]), flush, 0) {
					v, isC := ConstInt(rv[0])
					okErr = isC && v == 0 && HasAtom(Guards(r), func(s string) bool { return s == Desc(Strip(rv[1]))+" != nil" }) && !Dominates(bw[0], r)
				}
			}
			c.Check(okErr, r2, name, "flush-error-returns-zero", flush.Pos(), "a flush error returns (0, err) before anything of the new payload is buffered")
		}
	}
	if r3 != "" {
		isWS := func(i ssa.Instruction) bool {
			cl, ok := i.(ssa.CallInstruction)
			return ok && IsCallTo(cl, "(go.uber.org/zap/zapcore.WriteSyncer).Sync") && strings.HasSuffix(Desc(Args(cl)[0]), ".WS")
		}
		isFlush := func(i ssa.Instruction) bool {
			cl, ok := i.(ssa.CallInstruction)
			return ok && IsCallTo(cl, "(*bufio.Writer).Flush")
		}
		recvN := sync.Params[0].Name()
		classify := func(cl *ssa.Call) string {
			switch {
			case isFlush(cl):
				return "flush"
			case isWS(cl):
				return "sync"
			}
			return ""
		}
		for _, init := range []int64{1, 0} {
			iv := init
			slot := "initialized"
			if iv == 0 {
				slot = "not-initialized"
			}
			seqs, trunc := ConcPaths(sync, ConcCfg{
				Conc: func(d string) (int64, bool) {
					if d == recvN+".initialized" {
						return iv, true
					}
					return 0, false
				},
				Event: func(in ssa.Instruction, st *ConcState) string {
					switch x := in.(type) {
					case *ssa.Call:
						return classify(x)
					case *ssa.Return:
						src := errSources(st, x.Results[0], classify, 0)
						var l []string
						for k := range src {
							l = append(l, k)
						}
						sort.Strings(l)
						return "ret[" + strings.Join(l, "+") + "]"
					}
					return ""
				},
			})
			if trunc || len(seqs) == 0 {
				c.Und(r3, sync.String(), slot, sync.Pos(), "path exploration of Sync incomplete (%d sequences, truncated=%v)", len(seqs), trunc)
				continue
			}
			want := "flush ; sync ; ret[flush+sync]"
			if iv == 0 {
				want = "sync ; ret[sync]"
			}
			var bad []string
			for _, sq := range seqs {
				if sq != want {
					bad = append(bad, sq)
				}
			}
			if iv == 1 {
				c.Check(len(bad) == 0, r3, sync.String(), "flush-before-sync", sync.Pos(), "with initialized fixed to true every path of Sync (helpers explored inline) flushes the buffer, then syncs the sink, and returns an error built from both results (offending paths: %v)", bad)
			} else {
				c.Check(len(bad) == 0, r3, sync.String(), "always-syncs-sink", sync.Pos(), "with initialized fixed to false every path of Sync syncs the sink (no flush of the not yet created buffer) and returns that result (offending paths: %v)", bad)
			}
		}
	}
	if r4 != "" {
		name := stop.String()
		var storeStopped *ssa.Store
		var closeStop, tickerStop ssa.Instruction
		var owner *ssa.Function
		var recvDone ssa.Instruction
		var finalSync ssa.Instruction
		for _, f := range Region(stop) {
			AllInstrs(f, func(i ssa.Instruction) {
				switch x := i.(type) {
				case *ssa.Store:
					if strings.HasSuffix(Desc(x.Addr), ".stopped") {
						storeStopped, owner = x, f
					}
				case *ssa.Call:
					if CallBuiltin(x) == "close" && strings.HasSuffix(Desc(x.Call.Args[0]), ".stop") {
						closeStop = x
					}
					if IsCallTo(x, "(*time.Ticker).Stop") {
						tickerStop = x
					}
					if IsCallTo(x, "(*go.uber.org/zap/zapcore.BufferedWriteSyncer).Sync") {
						finalSync = x
					}
				case *ssa.UnOp:
					if x.Op == token.ARROW && strings.HasSuffix(Desc(x.X), ".done") {
						recvDone = x
					}
				}
			})
		}
		if storeStopped == nil || closeStop == nil || recvDone == nil {
			c.Bad(r4, name, "shape", stop.Pos(), "expected a store to stopped, close(stop) and <-done (found %v %v %v)", storeStopped != nil, closeStop != nil, recvDone != nil)
		} else {
			held := MustHeldCtx(owner)
			m := ""
			for k := range held[storeStopped] {
				m = k
			}
			// test and set in one critical section
			atoms := AtomStrings(Guards(storeStopped))
			tested := false
			for _, a := range atoms {
				if strings.HasSuffix(a, ".stopped") && strings.HasPrefix(a, "!") {
					tested = true
				}
			}
			unlockBetween := false
			if iff, _, _ := BranchOn(owner, strings.TrimPrefix(firstWithSuffix(atoms, ".stopped"), "!")); iff != nil {
				unlockBetween = ExistsPath(owner, iff, func(i ssa.Instruction) bool { return i == ssa.Instruction(storeStopped) }, nil) &&
					!ExistsPath(owner, iff, func(i ssa.Instruction) bool { return i == ssa.Instruction(storeStopped) }, func(i ssa.Instruction) bool {
						cl, ok := i.(*ssa.Call)
						if !ok {
							return false
						}
						k, _ := LockEvent(cl)
						return k < 0
					})
			}
			c.Check(tested && m != "" && Desc(storeStopped.Val) == "true" && !unlockBetween && storeStopped.Parent() == closeStop.Parent(), r4, name, "test-and-set-atomic", storeStopped.Pos(),
				"the stopped flag is tested (false) and set in the same critical section (lockset %s, guards %v); a separate section lets two Stop calls both close the channel", held[storeStopped], atoms)
			initd := false
			for _, a := range atoms {
				if strings.HasSuffix(a, ".initialized") && !strings.HasPrefix(a, "!") {
					initd = true
				}
			}
			c.Check(initd, r4, name, "latched-only-when-running", storeStopped.Pos(), "stopped is latched only when the syncer is initialised (guards %v); latching it on a never-written syncer makes every later Stop a no-op although a later Write still starts the flush loop", atoms)
			sameSection := closeStop.Parent() == owner && Dominates(storeStopped, closeStop) && held[closeStop][m] == 1
			c.Check(sameSection && tickerStop != nil && tickerStop.Parent() == owner && Dominates(storeStopped, tickerStop), r4, name, "close-once-on-setting-path", closeStop.Pos(),
				"close(stop) and ticker.Stop() run only after this call set the flag, still under the lock (a second close would panic)")
			hr := MustHeldCtx(recvDone.Parent())
			c.Check(len(hr[recvDone]) == 0, r4, name, "waits-unlocked", recvDone.Pos(), "<-done is executed with no mutex held (lockset %s); holding it would deadlock against the flush loop's Sync (issue 1428)", hr[recvDone])
			c.Check(finalSync != nil && finalSync.Parent() == recvDone.Parent() && Dominates(recvDone, finalSync), r4, name, "final-sync", recvDone.Pos(), "a final Sync follows the wait")
			// non-blocking on the other paths: returns not dominated by recvDone are reached without channel ops
			blocks := false
			for _, r := range Returns(stop) {
				if Dominates(recvDone, r) {
					continue
				}
				if !ExistsPath(stop, nil, func(i ssa.Instruction) bool { return i == ssa.Instruction(r) }, func(i ssa.Instruction) bool { return i == recvDone }) {
					blocks = true
				}
			}
			c.Check(!blocks, r4, name, "other-paths-return", stop.Pos(), "not-initialised / already-stopped calls return without waiting")
		}
	}
	if r5 != "" {
		name := loop.String()
		deferClose := false
		AllInstrs(loop, func(i ssa.Instruction) {
			if d, ok := i.(*ssa.Defer); ok && CallBuiltin(d) == "close" && strings.HasSuffix(Desc(d.Call.Args[0]), ".done") && d.Block() == loop.Blocks[0] {
				deferClose = true
			}
		})
		c.Check(deferClose, r5, name, "closes-done", loop.Pos(), "done is closed by a deferred close at entry, so Stop's wait always ends")
		// Path exploration of the loop (helpers inline, two rounds): what each select outcome leads to
		cut := 0
		seqs, trunc := ConcPaths(loop, ConcCfg{
			MaxIter: 2, Cut: &cut,
			Event: func(in ssa.Instruction, st *ConcState) string {
				switch x := in.(type) {
				case *ssa.Call:
					if IsCallTo(x, "(*go.uber.org/zap/zapcore.BufferedWriteSyncer).Sync") {
						return "sync"
					}
					if sc := StaticCallee(x); sc != nil && !Eligible(sc) && curProgRoot(sc) {
						return "call:" + sc.Name()
					}
				case *ssa.Return:
					return "ret"
				}
				return ""
			},
			Branch: func(cond ssa.Value, taken bool, st *ConcState) string {
				pol := taken
				for k := 0; k < 8; k++ {
					if u, ok := cond.(*ssa.UnOp); ok && u.Op == token.NOT {
						cond, pol = u.X, !pol
						continue
					}
					if nx := st.Step(cond); nx != nil {
						cond = nx
						continue
					}
					break
				}
				bo, ok := cond.(*ssa.BinOp)
				if !ok || bo.Op != token.EQL && bo.Op != token.NEQ {
					return ""
				}
				x := Strip(bo.X)
				for k := 0; k < 8; k++ {
					if nx := st.Step(x); nx != nil {
						x = Strip(nx)
					}
				}
				ex, ok := x.(*ssa.Extract)
				if !ok || ex.Index != 0 {
					return ""
				}
				sel, ok := ex.Tuple.(*ssa.Select)
				kk, isC := ConstInt(bo.Y)
				if !ok || !isC || int(kk) >= len(sel.States) || kk < 0 {
					return ""
				}
				d := st.Desc(sel.States[kk].Chan)
				nm := "case?" + d
				switch {
				case strings.HasSuffix(d, ".ticker.C"):
					nm = "tick"
				case strings.HasSuffix(d, ".stop"):
					nm = "stop"
				}
				if pol == (bo.Op == token.EQL) {
					return nm
				}
				return "not-" + nm
			},
		})
		var bad []string
		reLoop := regexp.MustCompile(`^(tick sync )*stop ret $`)
		nOK := 0
		for _, sq := range seqs {
			var toks []string
			for _, t := range strings.Split(sq, " ; ") {
				if t != "" && !strings.HasPrefix(t, "not-") {
					toks = append(toks, t)
				}
			}
			if len(toks) > 0 && toks[len(toks)-1] == "panic" {
				continue // "blocking select matched no case": not a path of the program
			}
			if reLoop.MatchString(strings.Join(toks, " ") + " ") {
				nOK++
			} else {
				bad = append(bad, sq)
			}
		}
		c.Check(!trunc && nOK > 0 && len(bad) == 0, r5, name, "loop-protocol", loop.Pos(), "over %d explored paths (two rounds, helpers inline; %d longer ones cut): each round waits on exactly the ticker and the stop channel; a tick is followed by s.Sync() (flush + sink sync) and another round, the stop case by returning - the loop's only exit: %v", len(seqs), cut, bad)
		goes := 0
		c.EachRootFunc(func(fn *ssa.Function) {
			if fn.Pkg == nil || fn.Pkg.Pkg.Path() != CorePath {
				return
			}
			AllInstrs(fn, func(i ssa.Instruction) {
				if g, ok := i.(*ssa.Go); ok {
					goes++
					c.Check(fn == initFn && IsCallTo(g, "(*go.uber.org/zap/zapcore.BufferedWriteSyncer).flushLoop"), r5, FuncKey(fn), "go-statement", g.Pos(), "the only goroutine zapcore starts is the flush loop, from initialize")
				}
			})
		})
		if goes != 1 {
			c.Bad(r5, "zapcore", "go-statements", token.NoPos, "expected exactly one go statement in zapcore, found %d", goes)
		}
	}
}

func firstWithSuffix(atoms []string, suf string) string {
	for _, a := range atoms {
		if strings.HasSuffix(a, suf) {
			return a
		}
	}
	return ""
}

// mayCarry: can value e be the result of call src, directly or as the value an eligible helper returns on some path?
func mayCarry(e ssa.Value, src *ssa.Call, depth int) bool {
	if e == ssa.Value(src) {
		return true
	}
	if depth > 3 {
		return false
	}
	switch x := e.(type) {
	case *ssa.Phi:
		for _, ed := range x.Edges {
			if mayCarry(Strip(ed), src, depth+1) {
				return true
			}
		}
	case *ssa.Call:
		if h := helperOf(x); h != nil {
			for _, r := range Returns(h) {
				for _, v := range RetVals(r) {
					if mayCarry(Strip(v), src, depth+1) {
						return true
					}
				}
			}
		}
	case *ssa.Extract:
		return mayCarry(x.Tuple, src, depth+1)
	}
	return false
}

// errSources follows an error value along the current path (φ choices, helper results, multierr.Append/Combine
// arguments) back to the calls that produced it, classified by classify.
func errSources(st *ConcState, v ssa.Value, classify func(*ssa.Call) string, depth int) map[string]bool {
	out := map[string]bool{}
	if depth > 12 || v == nil {
		return out
	}
	v = Strip(v)
	if cl, ok := v.(*ssa.Call); ok {
		if k := classify(cl); k != "" {
			out[k] = true
			return out
		}
		if f := CalleeFunc(cl); f != nil {
			switch f.FullName() {
			case "go.uber.org/multierr.Append", "go.uber.org/multierr.Combine", "errors.Join":
				for _, a := range cl.Call.Args {
					for k := range errSources(st, a, classify, depth+1) {
						out[k] = true
					}
				}
				return out
			}
		}
	}
	if ex, ok := v.(*ssa.Extract); ok {
		if cl, ok := ex.Tuple.(*ssa.Call); ok {
			if k := classify(cl); k != "" {
				out[k] = true
				return out
			}
		}
	}
	if nx := st.Step(v); nx != nil && nx != v {
		return errSources(st, nx, classify, depth+1)
	}
	return out
}

// onlyCalledFrom: f is an eligible helper every call site of which lies in root (or in another such helper).
func onlyCalledFrom(f, root *ssa.Function, depth int) bool {
	if f == root {
		return true
	}
	if depth > 3 || !Eligible(f) {
		return false
	}
	sites := sitesOf(f)
	if len(sites) == 0 {
		return false
	}
	for _, s := range sites {
		if !onlyCalledFrom(s.Parent(), root, depth+1) {
			return false
		}
	}
	return true
}
