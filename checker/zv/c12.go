package zv

import (
	"fmt"
	"go/token"
	"go/types"
	"os"
	"regexp"
	"sort"
	"strings"

	"golang.org/x/tools/go/ssa"
)

func init() {
	Props["C12"] = Prop{
		Title: "BufferedWriteSyncer delivers every byte once, in order, in whole writes",
		Fn:    checkC12,
		Explanation: "Decides the structural part of the buffered syncer: every access to its mutable state happens with its mutex held (frozen guarded-by table; initialize is only called with the lock held; the flush loop reads only fields written before its go statement); Write buffers the ORIGINAL parameter in exactly one bufio write and flushes first exactly when the write does not fit and the buffer is non-empty, returning (0, err) on a flush error; Sync flushes (when initialised) and then always syncs the sink; the Stop protocol (flag tested and set in one critical section, ticker stopped and stop channel closed only on the path that set it, the wait for the flush goroutine happens with the mutex released, a final Sync follows, the other paths return without blocking); the flush loop closes done on exit, exits only on stop, and calls Sync on every tick; initialize contains the single go statement. " +
			"Also decided: every call into the wrapped sink or the bufio writer (Write, Flush, Sync) is made with the mutex held on every path, so the sink needs no lock of its own. " +
			"NOT decided: bufio.Writer's byte-exact behaviour (trusted), timing, the prefix property after kill -9, the interleavings themselves.",
		Assumptions: commonAssumptions,
	}
}

// bwsRoles: the unexported state of BufferedWriteSyncer, found by what each field is (type, who assigns it, who closes
// it) rather than by what it is called.
// bwsState: one state of the syncer's life cycle and what the fields that record it hold in that state.
type bwsState struct {
	name   string
	fields map[string]int64
}

type bwsRoles struct {
	// life: the life cycle unstarted → running → stopped, recorded either by two booleans (initialised, stopped) or by
	// one field of an integer type with a constant per state; latchField/latchVal: the store that records "stopped"
	life                                                 []bwsState
	lifeFields                                           []string
	latchField                                           string
	latchVal                                             int64
	mu, writer, ticker, stop, done, initialized, stopped string
	initFn, loop                                         *ssa.Function
	loopGo                                               *ssa.Go
	// doneWG: the flush loop's end is signalled through a sync.WaitGroup (Add before the go statement, Done on the way
	// out, Wait in Stop) instead of a channel that the loop closes.
	doneWG bool
	// chanLatched: "stopped" is not recorded in a field of its own: it is the stop channel being closed, tested with a
	// non-blocking receive. The life-cycle states then carry the pseudo field closedKey.
	chanLatched bool
	// testChan: the channel that test receives from (the stop channel, if the code is right)
	testChan string
}

// closedKey: pseudo field of a life-cycle state: whether the stop channel has been closed.
const closedKey = "#stop-closed"

var bwsR bwsRoles

// state returns the named life-cycle state.
func (r bwsRoles) state(name string) bwsState {
	for _, st := range r.life {
		if st.name == name {
			return st
		}
	}
	return bwsState{name: name}
}

// initFields: the state as seed for a path exploration of a method whose receiver is recv.
func (s bwsState) initFields(recv ssa.Value) []FieldVal {
	var out []FieldVal
	var ks []string
	for f := range s.fields {
		if !strings.HasPrefix(f, "#") {
			ks = append(ks, f)
		}
	}
	sort.Strings(ks)
	for _, f := range ks {
		out = append(out, FieldVal{Obj: recv, Field: f, Val: s.fields[f]})
	}
	return out
}

// conc: the same for explorations that fix values by their rendering.
func (s bwsState) conc(recvName string) func(string) (int64, bool) {
	return func(d string) (int64, bool) {
		for f, v := range s.fields {
			if d == recvName+"."+f {
				return v, true
			}
		}
		return 0, false
	}
}

// stopTest: in is the index a non-blocking select over a receive from the syncer's stop channel yields (the "has Stop
// run already?" test of a syncer that records it by closing that channel).
func (r bwsRoles) stopTest(in ssa.Instruction, st *ConcState) bool {
	ex, ok := in.(*ssa.Extract)
	if !ok || ex.Index != 0 {
		return false
	}
	sel, ok := ex.Tuple.(*ssa.Select)
	if !ok || sel.Blocking || len(sel.States) != 1 || sel.States[0].Dir != types.RecvOnly {
		return false
	}
	return strings.HasSuffix(st.Desc(sel.States[0].Chan), "."+r.testChan)
}

// fork: what the state says about the outcome of instructions the explorer cannot evaluate itself - the non-blocking
// receive from the stop channel of a channel-latched syncer: taken exactly when the channel was closed (a nil or open
// channel falls through to default).
func (s bwsState) fork(r bwsRoles) func(in ssa.Instruction, st *ConcState) []ConcAlt {
	closed, has := s.fields[closedKey]
	if !has {
		return nil
	}
	return func(in ssa.Instruction, st *ConcState) []ConcAlt {
		if !r.stopTest(in, st) {
			return nil
		}
		ex := in.(*ssa.Extract)
		if closed == 0 {
			return []ConcAlt{{Ints: map[ssa.Value]int64{ex: -1}}} // neither channel is closed before Stop has run
		}
		if r.testChan == r.stop {
			return []ConcAlt{{Ints: map[ssa.Value]int64{ex: 0}}}
		}
		// the other channel: closed by the flush loop some time after Stop asked it to leave - or not yet
		return []ConcAlt{{Ints: map[ssa.Value]int64{ex: 0}}, {Ints: map[ssa.Value]int64{ex: -1}}}
	}
}

// top: the syncer's own field a (possibly nested) state field lives in
func top(path string) string {
	if i := strings.Index(path, "."); i >= 0 {
		return path[:i]
	}
	return path
}

func (r bwsRoles) guarded() map[string]bool {
	m := map[string]bool{top(r.writer): true, top(r.ticker): true, top(r.stop): true, top(r.done): true, "Clock": true}
	for _, f := range r.lifeFields {
		m[top(f)] = true
	}
	return m
}

// loopArg: what a value of the flush loop stands for - for a parameter of the loop, the argument the go statement that
// starts it passes (the loop may be handed the syncer's channels instead of reading them from the receiver).
func (r *bwsRoles) loopArg(v ssa.Value) ssa.Value {
	if p, ok := v.(*ssa.Parameter); ok && r.loopGo != nil && p.Parent() == r.loop {
		args := r.loopGo.Call.Args
		for i, q := range r.loop.Params {
			if q == p && i < len(args) {
				return args[i]
			}
		}
	}
	return v
}

func discoverBWS(c *Ctx, bws *types.Named) (r bwsRoles, ok bool) {
	stt, isS := bws.Underlying().(*types.Struct)
	if !isS {
		return r, false
	}
	// candidate fields: the unexported fields of the type and of unexported struct values it embeds by value
	type cand struct {
		path  string // dotted path below the syncer
		owner *types.Named
		name  string
		typ   types.Type
	}
	var cands []cand
	for i := 0; i < stt.NumFields(); i++ {
		f := stt.Field(i)
		if f.Exported() {
			continue
		}
		cands = append(cands, cand{FN(f), bws, FN(f), f.Type()})
		if n, isN := types.Unalias(f.Type()).(*types.Named); isN && n.Obj().Pkg() != nil && n.Obj().Pkg().Path() == CorePath {
			if inner, isSt := n.Underlying().(*types.Struct); isSt {
				for j := 0; j < inner.NumFields(); j++ {
					g := inner.Field(j)
					cands = append(cands, cand{FN(f) + "." + FN(g), n, FN(g), g.Type()})
				}
			}
		}
	}
	var chans, bools, enums, wgs []cand
	var writer cand
	for _, cd := range cands {
		switch TypeName(cd.typ) {
		case "sync.Mutex":
			r.mu = cd.path
		case "*bufio.Writer":
			r.writer, writer = cd.path, cd
		case "*time.Ticker":
			r.ticker = cd.path
		case "sync.WaitGroup":
			wgs = append(wgs, cd)
		default:
			switch t := types.Unalias(cd.typ).Underlying().(type) {
			case *types.Chan:
				chans = append(chans, cd)
			case *types.Basic:
				if t.Kind() == types.Bool {
					bools = append(bools, cd)
				} else if n, isN := types.Unalias(cd.typ).(*types.Named); isN && t.Info()&types.IsInteger != 0 && n.Obj().Pkg() != nil && n.Obj().Pkg().Path() == CorePath {
					enums = append(enums, cd) // a state recorded as one of the constants of a type of its own
				}
			}
		}
	}
	if writer.owner == nil {
		return r, false
	}
	// the initialiser assigns the bufio writer; the flush loop is what a go statement of the type's methods starts
	for _, a := range c.FieldAccesses(writer.owner, map[string]bool{writer.name: true}) {
		if a.Write && !a.Esc {
			r.initFn = a.Fn
		}
	}
	c.EachRootFunc(func(fn *ssa.Function) {
		if rn := RecvNamed(fn); rn == nil || rn.Obj() != bws.Obj() {
			return
		}
		AllInstrs(fn, func(i ssa.Instruction) {
			if g, isGo := i.(*ssa.Go); isGo {
				if sc := g.Call.StaticCallee(); sc != nil {
					if rn := RecvNamed(sc); rn != nil && rn.Obj() == bws.Obj() {
						r.loop, r.loopGo = sc, g
					} else if sc.Parent() == fn {
						// go func() { …; s.loop() }(): the literal is the goroutine's body (the method it calls inline)
						r.loop, r.loopGo = sc, g
					}
				} else if mk, isMk := g.Call.Value.(*ssa.MakeClosure); isMk {
					// go func() { …; s.loop() }(): the literal is the goroutine's body (the method it calls inline)
					if lit, isF := mk.Fn.(*ssa.Function); isF {
						r.loop, r.loopGo = lit, g
					}
				}
			}
		})
	})
	// done: the channel the loop closes (itself, or through a helper it hands the channel to); stop: the other one
	if r.loop != nil {
		var closesParam func(h *ssa.Function, idx, d int) bool
		closesParam = func(h *ssa.Function, idx, d int) bool {
			if h == nil || d > 2 || idx >= len(h.Params) || len(h.Blocks) == 0 {
				return false
			}
			for _, cl := range Calls(h) {
				args := cl.Common().Args
				if CallBuiltin(cl) == "close" && len(args) == 1 && Strip(args[0]) == ssa.Value(h.Params[idx]) {
					return true
				}
				if sc := StaticCallee(cl); sc != nil {
					for i, a := range Args(cl) {
						if Strip(a) == ssa.Value(h.Params[idx]) && closesParam(sc, i, d+1) {
							return true
						}
					}
				}
			}
			return false
		}
		for _, g := range WithClosures(r.loop) {
			for _, cl := range Calls(g) {
				var closed []ssa.Value
				if CallBuiltin(cl) == "close" && len(cl.Common().Args) == 1 {
					closed = append(closed, cl.Common().Args[0])
				} else if sc := StaticCallee(cl); sc != nil {
					for i, a := range Args(cl) {
						if _, isChan := types.Unalias(a.Type()).Underlying().(*types.Chan); isChan && closesParam(sc, i, 0) {
							closed = append(closed, a)
						}
					}
				}
				for _, cv := range closed {
					d := Desc(r.loopArg(cv))
					for _, cd := range chans {
						if strings.HasSuffix(d, "."+cd.path) {
							r.done = cd.path
						}
					}
				}
			}
		}
	}
	if r.done == "" && len(chans) == 1 && len(wgs) == 1 && r.loop != nil {
		// no channel is closed by the loop: a WaitGroup the loop marks Done on its way out
		for _, g := range WithClosures(r.loop) {
			for _, cl := range Calls(g) {
				if IsCallTo(cl, "(*sync.WaitGroup).Done") && strings.HasSuffix(strings.TrimPrefix(Desc(Args(cl)[0]), "&"), "."+wgs[0].path) {
					r.done, r.doneWG = wgs[0].path, true
				}
			}
		}
	}
	for _, cd := range chans {
		if cd.path != r.done {
			r.stop = cd.path
		}
	}
	// initialized: the flag the initialiser sets; stopped: the other flag
	for _, cd := range bools {
		for _, a := range c.FieldAccesses(cd.owner, map[string]bool{cd.name: true}) {
			if a.Write && a.Fn == r.initFn {
				r.initialized = cd.path
			}
		}
	}
	for _, cd := range bools {
		if cd.path != r.initialized {
			r.stopped = cd.path
		}
	}
	lifeOK := false
	switch {
	case len(bools) == 2 && r.initialized != "" && r.stopped != "":
		r.life = []bwsState{
			{"unstarted", map[string]int64{r.initialized: 0, r.stopped: 0}},
			{"running", map[string]int64{r.initialized: 1, r.stopped: 0}},
			{"stopped", map[string]int64{r.initialized: 1, r.stopped: 1}},
		}
		r.lifeFields = []string{r.initialized, r.stopped}
		r.latchField, r.latchVal = r.stopped, 1
		lifeOK = true
	case len(bools) == 1 && len(enums) == 0 && r.initialized != "" && r.stop != "":
		// one flag only: "stopped" is the stop channel being closed, found out by a non-blocking receive
		r.stopped = ""
		tested := false
		c.EachRootFunc(func(fn *ssa.Function) {
			if rn := RecvNamed(fn); rn == nil || rn.Obj() != bws.Obj() || fn == r.loop {
				return
			}
			AllInstrs(fn, func(i ssa.Instruction) {
				if sel, isSel := i.(*ssa.Select); isSel && !sel.Blocking && len(sel.States) == 1 && sel.States[0].Dir == types.RecvOnly {
					for _, cd := range chans {
						if strings.HasSuffix(Desc(sel.States[0].Chan), "."+cd.path) {
							tested = true
							r.testChan = cd.path
						}
					}
				}
			})
		})
		if tested {
			r.life = []bwsState{
				{"unstarted", map[string]int64{r.initialized: 0, closedKey: 0}},
				{"running", map[string]int64{r.initialized: 1, closedKey: 0}},
				{"stopped", map[string]int64{r.initialized: 1, closedKey: 1}},
			}
			r.lifeFields = []string{r.initialized}
			r.chanLatched = true
			lifeOK = true
		}
	case len(bools) == 0 && len(enums) == 1 && r.initFn != nil:
		// unstarted: the zero value; running: the constant the initialiser stores; stopped: the other constant stored
		cd := enums[0]
		running, stoppedV := int64(-1), int64(-1)
		for _, a := range c.FieldAccesses(cd.owner, map[string]bool{cd.name: true}) {
			st, isSt := a.Instr.(*ssa.Store)
			if !a.Write || !isSt {
				continue
			}
			k, isC := ConstInt(st.Val)
			if !isC {
				running, stoppedV = -2, -2
				break
			}
			if a.Fn == r.initFn {
				running = k
			} else if k != 0 {
				stoppedV = k
			}
		}
		if running > 0 && stoppedV > 0 && running != stoppedV {
			r.life = []bwsState{
				{"unstarted", map[string]int64{cd.path: 0}},
				{"running", map[string]int64{cd.path: running}},
				{"stopped", map[string]int64{cd.path: stoppedV}},
			}
			r.lifeFields = []string{cd.path}
			r.latchField, r.latchVal = cd.path, stoppedV
			lifeOK = true
		}
	}
	if os.Getenv("ZV_DEBUG12") != "" {
		fmt.Fprintf(os.Stderr, "bws roles: mu=%q writer=%q ticker=%q stop=%q done=%q init=%q stopped=%q lifeOK=%v initFn=%v loop=%v chans=%d wg=%v\n", r.mu, r.writer, r.ticker, r.stop, r.done, r.initialized, r.stopped, lifeOK, r.initFn, r.loop, len(chans), r.doneWG)
	}
	ok = r.mu != "" && r.writer != "" && r.ticker != "" && r.stop != "" && r.done != "" && lifeOK && r.initFn != nil && r.loop != nil && (len(chans) == 2 && !r.doneWG || len(chans) == 1 && r.doneWG)
	return r, ok
}

// guardedBy checks the accesses of a struct's guarded fields against a mutex field.
func guardedBy(c *Ctx, rule string, named *types.Named, guarded map[string]bool, mutexField string, entryHeld map[string]bool, exempt func(a Access) string) int {
	n := 0
	held := map[*ssa.Function]map[ssa.Instruction]LockSet{}
	for _, a := range c.FieldAccesses(named, guarded) {
		if a.Field == mutexField {
			continue
		}
		n++
		fname := FuncKey(a.Fn)
		slot := a.Field + map[bool]string{true: "/write", false: "/read"}[a.Write] + "@" + relLine(c, a)
		if IsFresh(a.Base) {
			c.Triv(rule, fname, slot, a.Instr.Pos(), "access on an object allocated in this function (not yet shared)")
			continue
		}
		if why := exempt(a); why != "" {
			c.Triv(rule, fname, slot, a.Instr.Pos(), "exempt: %s", why)
			continue
		}
		h, ok := held[a.Fn]
		if !ok {
			entry := EntryLockset(a.Fn)
			if entryHeld[FStr(a.Fn)] {
				entry[Desc(a.Base)+"."+mutexField] = 1
			}
			h = MustHeld(a.Fn, entry)
			held[a.Fn] = h
		}
		m := Desc(a.Base) + "." + mutexField
		k := h[a.Instr][m]
		ok2 := k == 1 || (k == 2 && !a.Write)
		c.Check(ok2, rule, fname, slot, a.Instr.Pos(), "%s of %s.%s with lockset %s (needs %s%s)", map[bool]string{true: "write", false: "read"}[a.Write], Desc(a.Base), a.Field, h[a.Instr], map[bool]string{true: "W:", false: "R/W:"}[a.Write], m)
	}
	return n
}

// relLine gives a position-independent-ish discriminator: ordinal of this access within its function.
func relLine(c *Ctx, a Access) string {
	idx := 0
	AllInstrs(a.Fn, func(i ssa.Instruction) {
		if i.Pos() != token.NoPos && i.Pos() < a.Instr.Pos() {
			idx++
		}
	})
	return itoa(idx)
}

func checkC12(c *Ctx) {
	c.Rule("R12.1", "every access to BufferedWriteSyncer's mutable state holds its mutex", 10)
	c.Rule("R12.2", "Write: one buffered write of the original parameter; flush first exactly when it does not fit and the buffer is non-empty", 3)
	c.Rule("R12.3", "Sync flushes when initialised and always syncs the sink", 2)
	c.Rule("R12.4", "Stop protocol: atomic test-and-set, close once, wait unlocked, final Sync, non-blocking otherwise", 1)
	c.Rule("R12.5", "flush loop: done closed on exit, exits only on stop, Sync on every tick; single go statement in initialize", 2)
	c12Rules(c, "R12.1", "R12.2", "R12.3", "R12.4", "R12.5")
	c.Rule("R12.6", "every call into the wrapped sink or its bufio writer (Write, Flush, Sync) runs with the mutex held: the sink needs no lock of its own", 2)
	for _, m := range []string{"Write", "Sync"} {
		fb := c.Method(CorePath, "BufferedWriteSyncer", m)
		if c.Anchor("R12.6", "zapcore.BufferedWriteSyncer."+m, fb != nil) {
			LockedAcross(c, "R12.6", fb, func(cl ssa.CallInstruction) bool {
				return IsCallTo(cl, "(*bufio.Writer).Write", "(*bufio.Writer).Flush", "(go.uber.org/zap/zapcore.WriteSyncer).Sync")
			}, ".mu")
		}
	}
}

// c12SinkOwnership: the sink of a BufferedWriteSyncer is written only through
// its bufio.Writer, and that writer's pending bytes are never discarded.
func c12SinkOwnership(c *Ctx, rule string) {
	bws := c.Named(CorePath, "BufferedWriteSyncer")
	if !c.Anchor(rule, "zapcore.BufferedWriteSyncer", bws != nil) {
		return
	}
	// (the roles of the fields are discovered here as well: this rule also runs for properties that do not run c12Rules)
	if roles, ok := discoverBWS(c, bws); ok {
		bwsR = roles
	} else {
		c.Und(rule, "zapcore.BufferedWriteSyncer", "roles", bws.Obj().Pos(), "the roles of the BufferedWriteSyncer's fields (bufio writer, mutex, …) cannot be told")
		return
	}
	var direct, discard, pieces []string
	n := 0
	c.EachRootFunc(func(fn *ssa.Function) {
		for _, cl := range Calls(fn) {
			args := Args(cl)
			if len(args) == 0 {
				continue
			}
			a0 := args[0]
			fa, isFA := fieldOfNamed(a0, bws)
			if !isFA {
				continue
			}
			n++
			f := CalleeFunc(cl)
			if f == nil || f.Type().(*types.Signature).Recv() == nil {
				continue // the field is passed as an argument (bufio.NewWriterSize(s.WS, n)), not called
			}
			switch {
			case fa == "WS" && FNm(f) != "Sync":
				direct = append(direct, FuncKey(fn)+": "+Desc(a0)+"."+FNm(f))
			case fa == bwsR.writer && (FNm(f) == "Reset" || FNm(f) == "ReadFrom"):
				discard = append(discard, FuncKey(fn)+": "+Desc(a0)+"."+FNm(f))
			case fa == bwsR.writer && f.Pkg() != nil && f.Pkg().Path() == "bufio":
				switch FNm(f) {
				case "Write", "Flush", "Available", "Buffered", "Size":
				default:
					// WriteString / WriteByte / WriteRune / AvailableBuffer …: bufio cuts a string that is larger than
					// the buffer into buffer-sized sink writes when the sink has no WriteString of its own
					pieces = append(pieces, FuncKey(fn)+": "+Desc(a0)+"."+FNm(f))
				}
			}
		}
	})
	c.Check(len(direct) == 0 && n >= 4, rule, CorePath+".BufferedWriteSyncer", "sink-only-through-buffer", bws.Obj().Pos(), "of the wrapped WriteSyncer only Sync is called directly; every byte goes through the bufio.Writer, which keeps the order, turns short writes into errors and makes errors sticky (direct calls: %v; %d calls on WS/writer inspected)", direct, n)
	c.Check(len(pieces) == 0, rule, CorePath+".BufferedWriteSyncer", "whole-writes-only", bws.Obj().Pos(), "data enters the bufio.Writer through Write([]byte) only (bufio then hands an oversized payload to the sink in one piece); no WriteString/WriteByte/WriteRune: %v", pieces)
	c.Check(len(discard) == 0, rule, CorePath+".BufferedWriteSyncer", "buffer-never-discarded", bws.Obj().Pos(), "the bufio.Writer is never Reset (that would silently drop bytes already accepted): %v", discard)
}

// fieldOfNamed: v is (a load of) field F of a value of the named struct type; returns F.
func fieldOfNamed(v ssa.Value, named *types.Named) (string, bool) {
	v = Strip(v)
	if u, ok := v.(*ssa.UnOp); ok && u.Op == token.MUL {
		v = u.X
	}
	var x ssa.Value
	var idx int
	switch fa := v.(type) {
	case *ssa.FieldAddr:
		x, idx = fa.X, fa.Field
	case *ssa.Field:
		x, idx = fa.X, fa.Field
	default:
		return "", false
	}
	t := x.Type()
	if p, ok := types.Unalias(t).Underlying().(*types.Pointer); ok {
		t = p.Elem()
	}
	n, ok := types.Unalias(t).(*types.Named)
	if !ok || n.Obj() != named.Obj() {
		return "", false
	}
	return fieldName(x.Type(), idx), true
}

func c12Rules(c *Ctx, r1, r2, r3, r4, r5 string) {
	bws := c.Named(CorePath, "BufferedWriteSyncer")
	ra := r1 // the rule under which unresolved anchors are reported: the first one asked for
	for _, r := range []string{r2, r3, r4, r5} {
		if ra == "" {
			ra = r
		}
	}
	if !c.Anchor(ra, "zapcore.BufferedWriteSyncer", bws != nil) {
		return
	}
	roles, rolesOK := discoverBWS(c, bws)
	bwsR = roles
	initFn, loop := roles.initFn, roles.loop
	write := c.Method(CorePath, "BufferedWriteSyncer", "Write")
	sync := c.Method(CorePath, "BufferedWriteSyncer", "Sync")
	stop := c.Method(CorePath, "BufferedWriteSyncer", "Stop")
	if !c.Anchor(ra, "BufferedWriteSyncer: mutex, bufio writer, ticker, stop/done channels, initialised/stopped flags, initialiser, flush loop, Write/Sync/Stop", rolesOK && write != nil && sync != nil && stop != nil) {
		return
	}
	if r1 != "" {
		// initialize: all callers hold the lock
		entry := map[string]bool{}
		callers := c.CallersOf(FStr(initFn))
		allHeld := len(callers) > 0
		for _, cl := range callers {
			// (a helper: what every one of its callers holds counts; a literal run by a locking helper: what that holds)
			h := MustHeld(cl.Parent(), EntryLockset(cl.Parent()))
			m := Desc(Args(cl)[0]) + "." + roles.mu
			ok := h[cl][m] == 1
			// by exploring the caller in each life-cycle state: the initialiser runs exactly when the syncer was not
			// started yet
			notInit := true
			var seen []string
			caller := cl.Parent()
			for caller.Parent() != nil {
				caller = caller.Parent()
			}
			if len(caller.Params) == 0 {
				notInit = false
			} else {
				for _, ls := range roles.life {
					called := 0
					seqs, trunc := ConcPaths(caller, ConcCfg{
						InitFields: ls.initFields(caller.Params[0]), Conc: ls.conc(PN(caller.Params[0])), Fork: ls.fork(roles),
						Inline: func(h *ssa.Function) bool { return h != initFn },
						Event: func(in ssa.Instruction, st *ConcState) string {
							if x, isC := in.(*ssa.Call); isC && x.Call.StaticCallee() == initFn {
								called++
								return "init"
							}
							return ""
						},
					})
					withInit := 0
					for _, sq := range seqs {
						if strings.Contains(sq, "init") {
							withInit++
						}
					}
					seen = append(seen, ls.name+":"+itoa(withInit)+"/"+itoa(len(seqs)))
					if trunc || len(seqs) == 0 || (ls.name == "unstarted") != (withInit == len(seqs)) || ls.name != "unstarted" && withInit != 0 {
						notInit = false
					}
				}
			}
			c.Check(ok && notInit, r1, FuncKey(cl.Parent()), "initialize-called-locked", cl.Pos(), "initialize() is called with %s held (lockset %s) and, exploring the caller in each life-cycle state, on every path of the unstarted state and on none of the others (paths with the call / all paths: %v)", m, h[cl], seen)
			allHeld = allHeld && ok
		}
		if allHeld {
			entry[FStr(initFn)] = true
		}
		guardedBy(c, r1, bws, roles.guarded(), roles.mu, entry, func(a Access) string {
			if (a.Fn == loop || onlyCalledFrom(a.Fn, loop, 0)) && !a.Write && (a.Field == top(roles.ticker) || a.Field == top(roles.stop) || a.Field == top(roles.done)) {
				return "flushLoop reads ticker/stop/done, which are written once in initialize before the go statement that starts it (happens-before) and never again"
			}
			if roles.doneWG && a.Field == top(roles.done) {
				return "a sync.WaitGroup synchronises its own Add/Done/Wait"
			}
			if a.Fn == stop && !a.Write && a.Field == top(roles.done) && len(Guards(a.Instr)) > 0 {
				return "Stop reads done after its own critical section observed initialized == true; done is written once, in initialize, under the same mutex (happens-before through the lock)"
			}
			return ""
		})
		// ... and indeed never again: writers of ticker/stop/done/writer are only initialize
		for _, a := range c.FieldAccesses(bws, map[string]bool{top(roles.ticker): true, top(roles.stop): true, top(roles.done): true, top(roles.writer): true}) {
			if a.Write && !a.Esc {
				c.Check(a.Fn == initFn, r1, FuncKey(a.Fn), "written-once/"+a.Field, a.Instr.Pos(), "%s is assigned only in initialize", a.Field)
			}
		}
	}
	if r2 != "" {
		c12SinkOwnership(c, r2)
		c12Write(c, r2, roles, write)
		c12BufferSize(c, r2, roles)
	}
	if r3 != "" {
		isWS := func(i ssa.Instruction) bool {
			cl, ok := i.(ssa.CallInstruction)
			return ok && IsCallTo(cl, "(go.uber.org/zap/zapcore.WriteSyncer).Sync") && strings.HasSuffix(Desc(Args(cl)[0]), ".WS")
		}
		isFlush := func(i ssa.Instruction) bool {
			cl, ok := i.(ssa.CallInstruction)
			return ok && IsCallTo(cl, "(*bufio.Writer).Flush")
		}
		recvN := PN(sync.Params[0])
		classify := func(cl *ssa.Call) string {
			switch {
			case isFlush(cl):
				return "flush"
			case isWS(cl):
				return "sync"
			}
			return ""
		}
		for _, ls := range []bwsState{roles.state("running"), roles.state("stopped"), roles.state("unstarted")} {
			iv := int64(1)
			slot := "initialized"
			switch ls.name {
			case "unstarted":
				iv, slot = 0, "not-initialized"
			case "stopped":
				slot = "stopped" // what is written after Stop is still buffered: a Sync must flush it all the same
			}
			seqs, trunc := ConcPaths(sync, ConcCfg{
				InitFields: ls.initFields(sync.Params[0]), Conc: ls.conc(recvN), Fork: ls.fork(roles), IterClosures: true, MaxIter: 1,
				Event: func(in ssa.Instruction, st *ConcState) string {
					switch x := in.(type) {
					case *ssa.Call:
						return classify(x)
					case *ssa.Return:
						src := errSources(st, x.Results[0], classify, 0)
						var l []string
						for k := range src {
							l = append(l, k)
						}
						sort.Strings(l)
						return "ret[" + strings.Join(l, "+") + "]"
					}
					return ""
				},
			})
			if trunc || len(seqs) == 0 {
				c.Und(r3, FStr(sync), slot, sync.Pos(), "path exploration of Sync incomplete (%d sequences, truncated=%v)", len(seqs), trunc)
				continue
			}
			want := "flush ; sync ; ret[flush+sync]"
			if iv == 0 {
				want = "sync ; ret[sync]"
			}
			var bad []string
			for _, sq := range seqs {
				if sq != want {
					bad = append(bad, sq)
				}
			}
			if iv == 1 {
				c.Check(len(bad) == 0, r3, FStr(sync), "flush-before-sync/"+ls.name, sync.Pos(), "in the "+ls.name+" state every path of Sync (helpers explored inline) flushes the buffer, then syncs the sink, and returns an error built from both results (offending paths: %v)", bad)
			} else {
				c.Check(len(bad) == 0, r3, FStr(sync), "always-syncs-sink", sync.Pos(), "with initialized fixed to false every path of Sync syncs the sink (no flush of the not yet created buffer) and returns that result (offending paths: %v)", bad)
			}
		}
	}
	if r4 != "" {
		c12Stop(c, r4, roles, stop)
	}
	if r5 != "" {
		name := FStr(loop)
		// Path exploration of the loop (helpers inline, two rounds): what each select outcome leads to
		cut := 0
		closeEv := func(arg ssa.Value, st *ConcState) string {
			d := st.Desc(arg)
			if p, isP := arg.(*ssa.Parameter); isP && p.Parent() == loop {
				d = Desc(roles.loopArg(p))
			}
			if strings.HasSuffix(strings.TrimPrefix(d, "&"), "."+roles.done) {
				return "close-done"
			}
			return "close(" + d + ")"
		}
		seqs, trunc := ConcPaths(loop, ConcCfg{
			MaxIter: 2, Cut: &cut,
			DeferRun: func(d *ssa.Defer, st *ConcState) string {
				if CallBuiltin(d) == "close" && len(d.Call.Args) == 1 {
					return closeEv(d.Call.Args[0], st)
				}
				if IsCallTo(d, "(*sync.WaitGroup).Done") && roles.doneWG {
					return closeEv(d.Call.Args[0], st)
				}
				if IsCallTo(d, "(*sync.WaitGroup).Add") {
					return "wg.Add"
				}
				return ""
			},
			Event: func(in ssa.Instruction, st *ConcState) string {
				switch x := in.(type) {
				case *ssa.Call:
					if IsCallTo(x, "(*go.uber.org/zap/zapcore.BufferedWriteSyncer).Sync") {
						return "sync"
					}
					if IsCallTo(x, "(*sync.WaitGroup).Done") && roles.doneWG {
						return closeEv(x.Call.Args[0], st)
					}
					if IsCallTo(x, "(*sync.WaitGroup).Add") {
						return "wg.Add" // the loop must have been counted before it was started
					}
					if CallBuiltin(x) == "close" && len(x.Call.Args) == 1 {
						return closeEv(x.Call.Args[0], st)
					}
					if sc := StaticCallee(x); sc != nil && !Eligible(sc) && curProgRoot(sc) {
						return "call:" + FNm(sc)
					}
				case *ssa.Return:
					return "ret"
				}
				return ""
			},
			Branch: func(cond ssa.Value, taken bool, st *ConcState) string {
				pol := taken
				for k := 0; k < 8; k++ {
					if u, ok := cond.(*ssa.UnOp); ok && u.Op == token.NOT {
						cond, pol = u.X, !pol
						continue
					}
					if nx := st.Step(cond); nx != nil {
						cond = nx
						continue
					}
					break
				}
				bo, ok := cond.(*ssa.BinOp)
				if !ok || bo.Op != token.EQL && bo.Op != token.NEQ {
					return ""
				}
				x := Strip(bo.X)
				for k := 0; k < 8; k++ {
					if nx := st.Step(x); nx != nil {
						x = Strip(nx)
					}
				}
				ex, ok := x.(*ssa.Extract)
				if !ok || ex.Index != 0 {
					return ""
				}
				sel, ok := ex.Tuple.(*ssa.Select)
				kk, isC := ConstInt(bo.Y)
				if !ok || !isC || int(kk) >= len(sel.States) || kk < 0 {
					return ""
				}
				d := st.Desc(sel.States[kk].Chan)
				if p, isP := sel.States[kk].Chan.(*ssa.Parameter); isP && p.Parent() == loop {
					// a channel the go statement hands to the loop
					d = Desc(roles.loopArg(p))
				}
				nm := "case?" + d
				switch {
				case strings.HasSuffix(d, "."+roles.ticker+".C"):
					nm = "tick"
				case strings.HasSuffix(d, "."+roles.stop):
					nm = "stop"
				}
				if pol == (bo.Op == token.EQL) {
					return nm
				}
				return "not-" + nm
			},
		})
		var bad []string
		// ... and done is closed when the loop is left (deferred, so that Stop's wait always ends)
		reLoop := regexp.MustCompile(`^(tick sync )*stop close-done ret $`)
		nOK := 0
		for _, sq := range seqs {
			var toks []string
			for _, t := range strings.Split(sq, " ; ") {
				if t != "" && !strings.HasPrefix(t, "not-") {
					toks = append(toks, t)
				}
			}
			if len(toks) > 0 && toks[len(toks)-1] == "panic" {
				continue // "blocking select matched no case": not a path of the program
			}
			if reLoop.MatchString(strings.Join(toks, " ") + " ") {
				nOK++
			} else {
				bad = append(bad, sq)
			}
		}
		c.Check(!trunc && nOK > 0 && len(bad) == 0, r5, name, "loop-protocol", loop.Pos(), "over %d explored paths (two rounds, helpers inline; %d longer ones cut): each round waits on exactly the ticker and the stop channel; a tick is followed by s.Sync() (flush + sink sync) and another round, the stop case by returning - the loop's only exit - with the done channel closed on the way out: %v", len(seqs), cut, bad)
		goes := 0
		c.EachRootFunc(func(fn *ssa.Function) {
			if fn.Pkg == nil || fn.Pkg.Pkg.Path() != CorePath {
				return
			}
			AllInstrs(fn, func(i ssa.Instruction) {
				if g, ok := i.(*ssa.Go); ok {
					goes++
					c.Check(fn == initFn && g.Call.StaticCallee() == loop, r5, FuncKey(fn), "go-statement", g.Pos(), "the only goroutine zapcore starts is the flush loop, from initialize")
				}
			})
		})
		if goes != 1 {
			c.Bad(r5, "zapcore", "go-statements", token.NoPos, "expected exactly one go statement in zapcore, found %d", goes)
		}
		if roles.doneWG {
			// the loop is counted - Add(1) - in the initialiser on every path to the go statement (a Stop that follows
			// at once then waits for it), and nowhere else
			var adds []string
			okAdd := false
			c.EachRootFunc(func(fn *ssa.Function) {
				if fn.Pkg == nil || fn.Pkg.Pkg.Path() != CorePath {
					return
				}
				for _, cl := range Calls(fn) {
					if !IsCallTo(cl, "(*sync.WaitGroup).Add") || !strings.HasSuffix(strings.TrimPrefix(Desc(Args(cl)[0]), "&"), "."+roles.done) {
						continue
					}
					k, isC := ConstInt(Args(cl)[1])
					_, isCall := cl.(*ssa.Call)
					if fn == initFn && isC && k == 1 && isCall && roles.loopGo != nil && Dominates(cl, roles.loopGo) {
						okAdd = true
					} else {
						adds = append(adds, FuncKey(fn)+": Add("+Desc(Args(cl)[1])+")")
					}
				}
			})
			c.Check(okAdd && len(adds) == 0, r5, FuncKey(initFn), "loop-counted-before-start", initFn.Pos(), "the WaitGroup that Stop waits on is incremented by exactly 1 in the initialiser, before the go statement on every path, and nowhere else (other Add calls: %v)", adds)
		}
	}
}

func firstWithSuffix(atoms []string, suf string) string {
	for _, a := range atoms {
		if strings.HasSuffix(a, suf) {
			return a
		}
	}
	return ""
}

// mayCarry: can value e be the result of call src, directly or as the value an eligible helper returns on some path?
func mayCarry(e ssa.Value, src *ssa.Call, depth int) bool {
	if e == ssa.Value(src) {
		return true
	}
	if depth > 3 {
		return false
	}
	switch x := e.(type) {
	case *ssa.Phi:
		for _, ed := range x.Edges {
			if mayCarry(Strip(ed), src, depth+1) {
				return true
			}
		}
	case *ssa.Call:
		if h := helperOf(x); h != nil {
			for _, r := range Returns(h) {
				for _, v := range RetVals(r) {
					if mayCarry(Strip(v), src, depth+1) {
						return true
					}
				}
			}
		}
	case *ssa.Extract:
		return mayCarry(x.Tuple, src, depth+1)
	}
	return false
}

// errSources follows an error value along the current path (φ choices, helper results, multierr.Append/Combine
// arguments) back to the calls that produced it, classified by classify.
func errSources(st *ConcState, v ssa.Value, classify func(*ssa.Call) string, depth int) map[string]bool {
	out := map[string]bool{}
	if depth > 12 || v == nil {
		return out
	}
	v = Strip(v)
	if cl, ok := v.(*ssa.Call); ok {
		if k := classify(cl); k != "" {
			out[k] = true
			return out
		}
		if f := CalleeFunc(cl); f != nil {
			switch f.FullName() {
			case "go.uber.org/multierr.Append", "go.uber.org/multierr.Combine", "errors.Join":
				for _, a := range cl.Call.Args {
					for k := range errSources(st, a, classify, depth+1) {
						out[k] = true
					}
				}
				return out
			}
		}
	}
	if ex, ok := v.(*ssa.Extract); ok {
		if cl, ok := ex.Tuple.(*ssa.Call); ok {
			if k := classify(cl); k != "" {
				out[k] = true
				return out
			}
		}
	}
	if nx := st.Step(v); nx != nil && nx != v {
		return errSources(st, nx, classify, depth+1)
	}
	return out
}

// onlyCalledFrom: f is an eligible helper every call site of which lies in root (or in another such helper).
func onlyCalledFrom(f, root *ssa.Function, depth int) bool {
	if f == root {
		return true
	}
	if depth > 3 || !Eligible(f) {
		return false
	}
	sites := sitesOf(f)
	if len(sites) == 0 {
		return false
	}
	for _, s := range sites {
		if !onlyCalledFrom(s.Parent(), root, depth+1) {
			return false
		}
	}
	return true
}

// c12Stop: by path exploration of Stop (helpers and the critical-section literal inline) with the initialised and
// stopped flags fixed to each combination: a syncer that is not running or already stopped only takes and releases
// the lock and returns nil - no wait, no close; a running one latches the flag, stops the ticker and closes the stop
// channel inside one critical section (so that two Stops cannot both close it), waits for the flush loop with no lock
// held (it may need the lock to finish, issue 1428), and then syncs once more.
func c12Stop(c *Ctx, rule string, roles bwsRoles, stop *ssa.Function) {
	name := FStr(stop)
	recv := stop.Params[0]
	rn := PN(recv)
	fieldOf := func(st *ConcState, v ssa.Value) string {
		d := st.Desc(v)
		d = strings.TrimPrefix(d, "&")
		if strings.HasPrefix(d, rn+".") {
			return d[len(rn)+1:]
		}
		return "?" + d
	}
	nOK := 0
	var bad []string
	for _, ls := range roles.life {
		{
			init := int64(1)
			if ls.name == "unstarted" {
				init = 0
			}
			seqs, trunc := ConcPaths(stop, ConcCfg{
				InitFields: ls.initFields(recv), Conc: ls.conc(rn), Fork: ls.fork(roles), IterClosures: true, MaxIter: 1,
				Inline: func(h *ssa.Function) bool { return FNm(h) != "Sync" },
				Branch: func(cond ssa.Value, taken bool, st *ConcState) string {
					// a nil test of the done channel: it is created together with the initialised flag (R12.1:
					// assigned only in the initialiser), so "nil" cannot be observed on a running syncer
					pol := taken
					for k := 0; k < 8; k++ {
						if u, ok := cond.(*ssa.UnOp); ok && u.Op == token.NOT {
							cond, pol = u.X, !pol
							continue
						}
						if nx := st.Step(cond); nx != nil {
							cond = nx
							continue
						}
						break
					}
					bo, ok := cond.(*ssa.BinOp)
					if !ok || !IsNilConst(bo.Y) || (bo.Op != token.EQL && bo.Op != token.NEQ) {
						return ""
					}
					v := bo.X
					for k := 0; k < 12; k++ {
						if ct, ok := v.(*ssa.ChangeType); ok {
							v = ct.X
							continue
						}
						nx := st.Step(v)
						if nx == nil {
							break
						}
						v = nx
					}
					if u, ok := v.(*ssa.UnOp); ok && u.Op == token.MUL && fieldOf(st, u.X) == roles.done {
						if pol == (bo.Op == token.EQL) {
							return "done-is-nil"
						}
					}
					return ""
				},
				DeferRun: func(d *ssa.Defer, st *ConcState) string {
					if k, m := LockEvent(d); m != "" && strings.HasSuffix(m, "."+roles.mu) {
						if k > 0 {
							return "lock"
						}
						return "unlock"
					}
					return ""
				},
				Event: func(in ssa.Instruction, st *ConcState) string {
					switch x := in.(type) {
					case *ssa.Store:
						if fa, ok := x.Addr.(*ssa.FieldAddr); ok && fieldOf(st, fa) == roles.latchField {
							if k, known := st.Int(x.Val); known && k == roles.latchVal {
								return "latch"
							}
							return "stopped=?"
						}
					case *ssa.Call:
						if k, m := LockEvent(x); m != "" && strings.HasSuffix(m, "."+roles.mu) {
							if k > 0 {
								return "lock"
							}
							return "unlock"
						}
						switch {
						case CallBuiltin(x) == "close" && len(x.Call.Args) == 1:
							return "close(" + fieldOf(st, x.Call.Args[0]) + ")"
						case IsCallTo(x, "(*time.Ticker).Stop"):
							return "ticker.Stop"
						case IsCallTo(x, "(*go.uber.org/zap/zapcore.BufferedWriteSyncer).Sync"):
							return "sync"
						case IsCallTo(x, "(*sync.WaitGroup).Wait"):
							// waiting for the loop's Done: the WaitGroup form of receiving from the done channel
							return "recv(" + fieldOf(st, x.Call.Args[0]) + ")"
						case IsCallTo(x, "(*sync.WaitGroup).Add", "(*sync.WaitGroup).Done"):
							return "wg." + FNm(CalleeFunc(x)) + "(" + fieldOf(st, x.Call.Args[0]) + ")"
						}
					case *ssa.UnOp:
						if x.Op == token.ARROW {
							return "recv(" + fieldOf(st, x.X) + ")"
						}
					case *ssa.Select:
						if roles.chanLatched && !x.Blocking && len(x.States) == 1 && x.States[0].Dir == types.RecvOnly && strings.HasSuffix(st.Desc(x.States[0].Chan), "."+roles.testChan) {
							return "" // the "stopped already?" test; its outcome is the state's
						}
						return "select"
					case *ssa.Return:
						if len(x.Results) == 1 {
							if n, known := st.IsNil(x.Results[0]); known && n {
								return "ret(nil)"
							}
							return "ret(err)"
						}
						return "ret"
					}
					return ""
				},
			})
			tag := ls.name + ": "
			if trunc || len(seqs) == 0 {
				c.Und(rule, name, "stop-protocol", stop.Pos(), "path exploration incomplete (%s)", tag)
				return
			}
			for _, sq := range seqs {
				if init == 1 && strings.Contains(sq, "done-is-nil") {
					continue // not a state a running syncer can be in
				}
				sq = strings.ReplaceAll(sq, "done-is-nil ; ", "")
				ok := false
				if ls.name == "running" {
					latch := "latch ; "
					if roles.chanLatched {
						latch = "" // closing the stop channel is what records "stopped"
					}
					ok = sq == "lock ; "+latch+"ticker.Stop ; close("+roles.stop+") ; unlock ; recv("+roles.done+") ; sync ; ret(err)" ||
						sq == "lock ; "+latch+"close("+roles.stop+") ; ticker.Stop ; unlock ; recv("+roles.done+") ; sync ; ret(err)"
				} else {
					ok = sq == "lock ; unlock ; ret(nil)"
				}
				if ok {
					nOK++
				} else {
					bad = append(bad, tag+sq)
				}
			}
		}
	}
	c.Check(len(bad) == 0 && nOK >= 3, rule, name, "stop-protocol", stop.Pos(), "for each life-cycle state (unstarted, running, stopped): not running or already stopped → lock, unlock, return nil (no wait, no close); running → lock, latch stopped, stop the ticker and close the stop channel, unlock, then wait for the flush loop with no lock held, then a final Sync whose result is returned: %v", bad)
}

// c12Write: by path exploration of Write (helpers inline; the outcome of Flush forked): every path hands the caller's
// bytes to the bufio writer exactly once, unless a flush failed - then (0, err) is returned and nothing of the new
// payload is buffered; the buffer is flushed first exactly on the paths that established "does not fit" (len(p) >
// Available) and "something is pending" (Buffered > 0) - any further conjunct would let bufio split an oversized write
// across two sink writes; a flush never follows the write.
func c12Write(c *Ctx, rule string, roles bwsRoles, write *ssa.Function) {
	name := FStr(write)
	p := writeParam(write)
	if p == nil {
		c.Und(rule, name, "single-whole-write", write.Pos(), "cannot identify the payload parameter")
		return
	}
	recv := PN(write.Params[0])
	wD := recv + "." + roles.writer
	norm := func(d string) string {
		return strings.ReplaceAll(d, "(Size("+wD+") - Buffered("+wD+"))", "Available("+wD+")")
	}
	resolve := func(st *ConcState, v ssa.Value) ssa.Value {
		for k := 0; k < 16 && v != nil; k++ {
			if ct, ok := v.(*ssa.ChangeType); ok {
				v = ct.X
				continue
			}
			nx := st.Step(v)
			if nx == nil {
				break
			}
			v = nx
		}
		return v
	}
	classCond := func(cond ssa.Value, st *ConcState) (string, bool) {
		pol := true
		for k := 0; k < 8; k++ {
			if u, ok := cond.(*ssa.UnOp); ok && u.Op == token.NOT {
				cond, pol = u.X, !pol
				continue
			}
			if nx := st.Step(cond); nx != nil {
				cond = nx
				continue
			}
			break
		}
		bo, ok := cond.(*ssa.BinOp)
		if !ok {
			return "", false
		}
		x, y, op := norm(st.Desc(bo.X)), norm(st.Desc(bo.Y)), bo.Op
		lenP, avail, buf := "len("+PN(p)+")", "Available("+wD+")", "Buffered("+wD+")"
		if x == avail && y == lenP || x == "0" && y == buf {
			x, y, op = y, x, swapOp(op)
		}
		switch {
		case x == lenP && y == avail && op == token.GTR:
			return "nofit", pol
		case x == lenP && y == avail && op == token.LEQ:
			return "nofit", !pol
		case x == buf && y == "0" && (op == token.GTR || op == token.NEQ):
			return "pending", pol
		case x == buf && y == "0" && (op == token.LEQ || op == token.EQL):
			return "pending", !pol
		}
		return "", false
	}
	seqs, trunc := ConcPaths(write, ConcCfg{
		InitFields: roles.state("running").initFields(write.Params[0]), Conc: roles.state("running").conc(recv), IterClosures: true, MaxIter: 1,
		Fork: func(in ssa.Instruction, st *ConcState) []ConcAlt {
			if cl, ok := in.(*ssa.Call); ok && IsCallTo(cl, "(*bufio.Writer).Flush") {
				return []ConcAlt{{Ev: "flush-ok", Nils: map[ssa.Value]bool{cl: true}}, {Ev: "flush-failed", Nils: map[ssa.Value]bool{cl: false}}}
			}
			if f := roles.state("running").fork(roles); f != nil {
				return f(in, st)
			}
			return nil
		},
		DeferRun: func(d *ssa.Defer, st *ConcState) string {
			if k, m := LockEvent(d); m != "" && strings.HasSuffix(m, "."+roles.mu) {
				if k > 0 {
					return "lock"
				}
				return "unlock"
			}
			return ""
		},
		Event: func(in ssa.Instruction, st *ConcState) string {
			switch x := in.(type) {
			case *ssa.Call:
				if k, m := LockEvent(x); m != "" && strings.HasSuffix(m, "."+roles.mu) {
					if k > 0 {
						return "lock"
					}
					return "unlock"
				}
				if IsCallTo(x, "(*bufio.Writer).Flush") {
					return "flush"
				}
				if IsCallTo(x, "(*bufio.Writer).Write", "(*bufio.Writer).WriteString") {
					if resolve(st, Args(x)[1]) == ssa.Value(p) {
						return "write(p)"
					}
					return "write(?" + st.Desc(Args(x)[1]) + ")"
				}
			case *ssa.Return:
				if len(x.Results) != 2 {
					return "ret"
				}
				n := "?"
				if k, known := st.Int(x.Results[0]); known {
					n = itoa(int(k))
				} else if cl, ok := resolve(st, x.Results[0]).(*ssa.Extract); ok {
					if w, ok := cl.Tuple.(*ssa.Call); ok && IsCallTo(w, "(*bufio.Writer).Write", "(*bufio.Writer).WriteString") {
						n = "written"
					}
				}
				e := "?"
				if nl, known := st.IsNil(x.Results[1]); known {
					e = map[bool]string{true: "nil", false: "err"}[nl]
				} else if cl, ok := resolve(st, x.Results[1]).(*ssa.Extract); ok {
					if w, ok := cl.Tuple.(*ssa.Call); ok && IsCallTo(w, "(*bufio.Writer).Write", "(*bufio.Writer).WriteString") {
						e = "write-err"
					}
				}
				return "ret(" + n + "," + e + ")"
			}
			return ""
		},
		Branch: func(cond ssa.Value, taken bool, st *ConcState) string {
			k, v := classCond(cond, st)
			if k == "" {
				return ""
			}
			if v == taken {
				return k + "=T"
			}
			return k + "=F"
		},
	})
	if trunc || len(seqs) == 0 {
		c.Und(rule, name, "flush-condition", write.Pos(), "path exploration of Write incomplete (%d, truncated=%v)", len(seqs), trunc)
		return
	}
	var badW, badCond, badOrder, badErr, badAtomic []string
	nFlush := 0
	for _, sq := range seqs {
		// one critical section from the first look at the buffer's fill state to the write
		{
			locked, looked, broken := false, false, false
			for _, e := range strings.Split(sq, " ; ") {
				switch {
				case e == "lock":
					locked = true
				case e == "unlock":
					locked = false
					if looked {
						broken = true
					}
				case strings.HasPrefix(e, "nofit=") || strings.HasPrefix(e, "pending=") || e == "flush":
					looked = true
					if !locked {
						broken = true
					}
				case strings.HasPrefix(e, "write("):
					if !locked || broken {
						badAtomic = append(badAtomic, sq)
					}
					looked = false
				}
			}
		}
		sq = strings.ReplaceAll(strings.ReplaceAll(" ; "+sq+" ; ", " ; lock ; ", " ; "), " ; unlock ; ", " ; ")
		sq = strings.ReplaceAll(sq, " ; unlock ; ", " ; ")
		sq = strings.TrimSuffix(strings.TrimPrefix(sq, " ; "), " ; ")
		ev := strings.Split(sq, " ; ")
		fl, wr, nw := -1, -1, 0
		failed := false
		facts := map[string]bool{}
		for i, e := range ev {
			switch {
			case e == "flush":
				if fl < 0 {
					fl = i
				}
				if wr >= 0 {
					badOrder = append(badOrder, sq)
				}
			case e == "flush-failed":
				failed = true
			case e == "flush-ok":
			case strings.HasPrefix(e, "write("):
				nw++
				wr = i
				if e != "write(p)" {
					badW = append(badW, sq)
				}
			case strings.HasPrefix(e, "ret("):
			default:
				if wr < 0 && fl < 0 {
					facts[e] = true
				}
			}
		}
		last := ev[len(ev)-1]
		if failed {
			if nw != 0 || last != "ret(0,err)" {
				badErr = append(badErr, sq)
			}
			continue
		}
		if nw != 1 || last != "ret(written,write-err)" {
			badW = append(badW, sq)
		}
		if fl >= 0 {
			nFlush++
			if !(facts["nofit=T"] && facts["pending=T"]) {
				badCond = append(badCond, "flushes without having established both conditions: "+sq)
			}
		} else if !(facts["nofit=F"] || facts["pending=F"]) {
			badCond = append(badCond, "writes without a flush although neither condition was found false: "+sq)
		}
	}
	lim := func(l []string) []string {
		if len(l) > 2 {
			return append(l[:2:2], "… "+itoa(len(l)-2)+" more")
		}
		return l
	}
	c.Check(len(badW) == 0, rule, name, "single-whole-write", write.Pos(), "on every path that does not end in a flush error the caller's bytes are handed to the bufio writer exactly once, whole, and its result is what Write returns (a re-sliced or split payload would tear a line): %v", lim(badW))
	c.Check(nFlush > 0, rule, name, "flush-before-write", write.Pos(), "some path flushes the buffer before the write")
	c.Check(len(badCond) == 0 && nFlush > 0, rule, name, "flush-condition", write.Pos(), "over all %d paths of Write (helpers inline) the buffer is flushed first exactly when the payload does not fit (len(p) > Available) and something is pending (Buffered > 0); any further conjunct would let bufio split an oversized write across two sink writes: %v", len(seqs), lim(badCond))
	c.Check(len(badAtomic) == 0, rule, name, "check-and-write-atomic", write.Pos(), "the fit test, the flush and the write happen in one critical section (between the test and the write the mutex is never released, or another writer's bytes could use up the space that was just found): %v", lim(badAtomic))
	c.Check(len(badOrder) == 0, rule, name, "flush-precedes", write.Pos(), "the flush never follows the write: %v", lim(badOrder))
	c.Check(len(badErr) == 0, rule, name, "flush-error-returns-zero", write.Pos(), "a flush error returns (0, err) before anything of the new payload is buffered: %v", lim(badErr))
}

// c12BufferSize: the initialiser creates the bufio writer over the wrapped sink with exactly the configured size (the
// default when Size is 0) - a larger buffer holds back more than the documented bound - and the ticker with exactly
// the configured interval; evaluated with Size / FlushInterval fixed to 0 and to an odd non-zero value.
func c12BufferSize(c *Ctx, rule string, roles bwsRoles) {
	fn := roles.initFn
	name := FStr(fn)
	rn := PN(fn.Params[0])
	defSize, ok1 := c.ConstVal(CorePath, "_defaultBufferSize")
	defIvl, ok2 := c.ConstVal(CorePath, "_defaultFlushInterval")
	if !c.Anchor(rule, "zapcore._defaultBufferSize/_defaultFlushInterval", ok1 && ok2) {
		return
	}
	var bad []string
	n := 0
	for _, cfg := range [][2]int64{{0, 0}, {5001, 1234567}} {
		size, ivl := cfg[0], cfg[1]
		wantSize, wantIvl := size, ivl
		if size == 0 {
			wantSize = defSize
		}
		if ivl == 0 {
			wantIvl = defIvl
		}
		seqs, trunc := ConcPaths(fn, ConcCfg{
			InlineAny: smallGenericHelper,
			Conc: func(d string) (int64, bool) {
				switch d {
				case rn + ".Size":
					return size, true
				case rn + ".FlushInterval":
					return ivl, true
				}
				return 0, false
			},
			Event: func(in ssa.Instruction, st *ConcState) string {
				x, ok := in.(*ssa.Call)
				if !ok {
					return ""
				}
				a := Args(x)
				switch {
				case IsCallTo(x, "bufio.NewWriterSize") && len(a) == 2:
					k, known := st.Int(a[1])
					if !known {
						return "buffer(size ?" + st.Desc(a[1]) + ")"
					}
					sink := "sink"
					if st.Desc(a[0]) != rn+".WS" {
						sink = "?" + st.Desc(a[0])
					}
					return "buffer(" + sink + "," + itoa(int(k)) + ")"
				case IsCallTo(x, "bufio.NewWriter"):
					return "buffer(default-bufio-size)"
				case x.Call.IsInvoke() && FNm(x.Call.Method) == "NewTicker" && len(x.Call.Args) == 1:
					k, known := st.Int(x.Call.Args[0])
					if !known {
						return "ticker(?" + st.Desc(x.Call.Args[0]) + ")"
					}
					return "ticker(" + itoa(int(k)) + ")"
				}
				return ""
			},
		})
		if trunc || len(seqs) == 0 {
			c.Und(rule, name, "configured-size-and-interval", fn.Pos(), "path exploration incomplete")
			return
		}
		want := map[string]bool{"buffer(sink," + itoa(int(wantSize)) + ")": true, "ticker(" + itoa(int(wantIvl)) + ")": true}
		for _, sq := range seqs {
			n++
			got := map[string]bool{}
			for _, t := range strings.Split(sq, " ; ") {
				got[t] = true
			}
			for w := range want {
				if !got[w] {
					bad = append(bad, "Size="+itoa(int(size))+" FlushInterval="+itoa(int(ivl))+": expected "+w+", path does "+sq)
				}
			}
		}
	}
	c.Check(len(bad) == 0 && n >= 2, rule, name, "configured-size-and-interval", fn.Pos(), "the bufio writer wraps the sink with exactly Size bytes (%d when Size is 0) and the ticker runs at exactly FlushInterval (the default when 0): %v", defSize, bad)
}
