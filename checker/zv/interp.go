package zv

import (
	"bytes"
	"fmt"
	"go/constant"
	"go/token"
	"go/types"
	"strconv"
	"strings"
	"unicode"

	"golang.org/x/tools/go/ssa"
)

// ---------------------------------------------------------------------------
// A small evaluator for go/ssa functions over CONCRETE arguments.
//
// Several properties quantify over a finite domain that the code decides by
// table or switch (all 256 Level values, a finite vocabulary of level names).
// Rather than recognising one syntactic form of such a table (switch arms,
// array literal, map literal, helper returning a pair …) the rules evaluate the
// function's SSA for every member of the domain. The evaluator reads the SSA
// of the current source only; it does not run the compiled program. Whatever
// it does not model (unknown std calls, channels, maps, goroutines, reflection)
// yields an opaque value, and branching on an opaque value aborts the
// evaluation with an error, which the calling rule reports as UNDECIDED.
// ---------------------------------------------------------------------------

type ivKind int

const (
	ivOpaque ivKind = iota
	ivInt
	ivStr
	ivBool
	ivNil
	ivPtr   // P = target cell
	ivBytes // S = contents
	ivTuple // T
	ivAgg   // array value, P = cell holding the elements
	ivSlice // P = backing array cell (whole array)
	ivMap   // M = entries of a constant map (package-level table), keyed by mapKey
)

type IVal struct {
	K      ivKind
	I      int64
	S      string
	B      bool
	P      *ICell
	T      []IVal
	NonNil bool
	Lo, Hi int64 // ivSlice: window into the backing array
	M      map[string]IVal
	MZero  *IVal         // ivMap: the zero value of the element type
	F      *ssa.Function // a function value (K == ivOpaque, NonNil): the function it denotes
	FB     []IVal        // ... and what its free variables are bound to (a function literal, a method value)
}

// mapKey renders a key value for constant-map lookups ("" when the key is not evident).
func mapKey(v IVal) string {
	switch v.K {
	case ivInt:
		return "i:" + strconv.FormatInt(v.I, 10)
	case ivStr, ivBytes:
		return "s:" + v.S
	case ivBool:
		if v.B {
			return "b:1"
		}
		return "b:0"
	}
	return ""
}

type ICell struct {
	V       IVal
	Elems   map[int64]*ICell // array elements
	N       int64            // array length
	Fields  []*ICell         // struct fields
	Written int
}

func IInt(k int64) IVal    { return IVal{K: ivInt, I: k} }
func IStr(s string) IVal   { return IVal{K: ivStr, S: s} }
func IBytes(s string) IVal { return IVal{K: ivBytes, S: s} }
func IPtr(c *ICell) IVal   { return IVal{K: ivPtr, P: c, NonNil: true} }

func (v IVal) String() string {
	switch v.K {
	case ivInt:
		return fmt.Sprint(v.I)
	case ivStr:
		return fmt.Sprintf("%q", v.S)
	case ivBytes:
		return fmt.Sprintf("[]byte(%q)", v.S)
	case ivBool:
		return fmt.Sprint(v.B)
	case ivNil:
		return "nil"
	case ivPtr:
		return "&cell"
	case ivTuple:
		var p []string
		for _, t := range v.T {
			p = append(p, t.String())
		}
		return "(" + strings.Join(p, ", ") + ")"
	case ivOpaque:
		if v.NonNil {
			return "non-nil<" + v.S + ">"
		}
		return "opaque<" + v.S + ">"
	}
	return "?"
}

type Interp struct {
	c       *Ctx
	steps   int
	globals map[*ssa.Global]*ICell
	Unknown []string
	// pendingFB: the bindings of the free variables of the closure about to run (consumed by run)
	pendingFB []IVal
	// OnCall lets a rule intercept calls (e.g. record writes to a buffer the evaluator does not model).
	OnCall func(call *ssa.Call, args []IVal) (IVal, bool)
}

// NewStructCell returns a zeroed cell for a value of struct type t.
func NewStructCell(t types.Type) *ICell { return newCell(t) }

// Field returns the cell of field name of a struct cell created for type t.
func (c *ICell) Field(t types.Type, name string) *ICell {
	st, ok := t.Underlying().(*types.Struct)
	if !ok {
		return nil
	}
	for i := 0; i < st.NumFields() && i < len(c.Fields); i++ {
		if FN(st.Field(i)) == name {
			return c.Fields[i]
		}
	}
	return nil
}

// IPanic: the interpreted code itself panics on this input (as opposed to the interpreter not covering a construct).
type IPanic struct{ Msg string }

func (p *IPanic) Error() string { return "run-time panic: " + p.Msg }

func NewInterp(c *Ctx) *Interp { return &Interp{c: c, globals: map[*ssa.Global]*ICell{}} }

func zeroOf(t types.Type) IVal {
	switch u := t.Underlying().(type) {
	case *types.Basic:
		switch {
		case u.Info()&types.IsInteger != 0:
			return IInt(0)
		case u.Info()&types.IsString != 0:
			return IStr("")
		case u.Info()&types.IsBoolean != 0:
			return IVal{K: ivBool}
		}
	case *types.Pointer, *types.Interface, *types.Slice, *types.Map, *types.Signature, *types.Chan:
		return IVal{K: ivNil}
	}
	return IVal{K: ivOpaque, S: "zero " + TStr(t)}
}

func newCell(t types.Type) *ICell {
	c := &ICell{}
	if a, ok := t.Underlying().(*types.Array); ok {
		c.Elems = map[int64]*ICell{}
		c.N = a.Len()
		for i := int64(0); i < a.Len() && i < 4096; i++ {
			c.Elems[i] = newCell(a.Elem())
		}
		return c
	}
	if st, ok := t.Underlying().(*types.Struct); ok {
		for i := 0; i < st.NumFields(); i++ {
			c.Fields = append(c.Fields, newCell(st.Field(i).Type()))
		}
		return c
	}
	c.V = zeroOf(t)
	return c
}

func (c *ICell) aggregate() bool { return c.Elems != nil || c.Fields != nil }

// copyInto copies the contents of src into dst (same shape).
func (dst *ICell) copyFrom(src *ICell) {
	dst.V = src.V
	for k, e := range src.Elems {
		if dst.Elems != nil && dst.Elems[k] != nil {
			dst.Elems[k].copyFrom(e)
		}
	}
	for i, f := range src.Fields {
		if i < len(dst.Fields) {
			dst.Fields[i].copyFrom(f)
		}
	}
}

// cellValue reads a cell: aggregates are passed by reference to the cell (readers copy on store).
func cellValue(c *ICell) IVal {
	if c.aggregate() {
		return IVal{K: ivAgg, P: c}
	}
	return c.V
}

func truncInt(k int64, t types.Type) int64 {
	b, ok := t.Underlying().(*types.Basic)
	if !ok {
		return k
	}
	switch b.Kind() {
	case types.Int8:
		return int64(int8(k))
	case types.Uint8:
		return int64(uint8(k))
	case types.Int16:
		return int64(int16(k))
	case types.Uint16:
		return int64(uint16(k))
	case types.Int32:
		return int64(int32(k))
	case types.Uint32:
		return int64(uint32(k))
	}
	return k
}

// globalCell builds the initial contents of a package variable from the
// stores of its package initialiser. A variable that is also written outside
// the initialiser is opaque.
func (it *Interp) globalCell(g *ssa.Global) *ICell {
	if c, ok := it.globals[g]; ok {
		return c
	}
	elemT := g.Type().(*types.Pointer).Elem()
	cell := newCell(elemT)
	it.globals[g] = cell
	mutable := false
	it.c.EachRootFunc(func(fn *ssa.Function) {
		if FNm(fn) == "init" && fn.Pkg == g.Pkg {
			return
		}
		AllInstrs(fn, func(i ssa.Instruction) {
			if st, ok := i.(*ssa.Store); ok && Root(st.Addr) == ssa.Value(g) {
				mutable = true
			}
		})
	})
	if mutable || g.Pkg == nil {
		cell.V = IVal{K: ivOpaque, S: "mutable global " + GN(g)}
		cell.Elems = nil
		return cell
	}
	initFn := g.Pkg.Func("init")
	if initFn == nil {
		return cell
	}
	it.fillFromStores(g, cell, initFn, 0)
	return cell
}

// fillFromStores reconstructs what the initialiser stores through addr (a
// global, an allocation, or an element/field address derived from one):
// constants, nested composite literals, and slices of literal arrays.
func (it *Interp) fillFromStores(addr ssa.Value, cell *ICell, in *ssa.Function, depth int) {
	if depth > 8 || addr.Referrers() == nil && !isGlobal(addr) {
		return
	}
	var refs []ssa.Instruction
	if isGlobal(addr) {
		AllInstrs(in, func(i ssa.Instruction) {
			for _, op := range i.Operands(nil) {
				if *op == addr {
					refs = append(refs, i)
					break
				}
			}
		})
	} else {
		refs = *addr.Referrers()
	}
	for _, r := range refs {
		switch x := r.(type) {
		case *ssa.Store:
			if x.Addr != addr {
				continue
			}
			cell.Written++
			it.staticValue(x.Val, cell, in, depth+1)
		case *ssa.IndexAddr:
			if x.X != addr || cell.Elems == nil {
				continue
			}
			if idx, ok := ConstInt(x.Index); ok && cell.Elems[idx] != nil {
				it.fillFromStores(x, cell.Elems[idx], in, depth+1)
			}
		case *ssa.FieldAddr:
			if x.X != addr || x.Field >= len(cell.Fields) {
				continue
			}
			it.fillFromStores(x, cell.Fields[x.Field], in, depth+1)
		}
	}
}

func isGlobal(v ssa.Value) bool { _, ok := v.(*ssa.Global); return ok }

// staticValue stores the initialiser value v into cell.
func (it *Interp) staticValue(v ssa.Value, cell *ICell, in *ssa.Function, depth int) {
	switch x := v.(type) {
	case *ssa.Const:
		if !cell.aggregate() {
			cell.V = it.constVal(x)
		}
	case *ssa.UnOp:
		// *alloc: a composite literal built in a temporary
		if al, ok := x.X.(*ssa.Alloc); ok && x.Op == token.MUL {
			it.fillFromStores(al, cell, in, depth+1)
			return
		}
		cell.V = IVal{K: ivOpaque, S: "initialiser"}
	case *ssa.Slice:
		if al, ok := x.X.(*ssa.Alloc); ok && x.Low == nil && x.High == nil {
			arr := newCell(al.Type().(*types.Pointer).Elem())
			it.fillFromStores(al, arr, in, depth+1)
			cell.V = IVal{K: ivSlice, P: arr, Lo: 0, Hi: arr.N, NonNil: true}
			return
		}
		cell.V = IVal{K: ivOpaque, S: "initialiser"}
	case *ssa.Convert, *ssa.ChangeType:
		var inner ssa.Value
		if c, ok := x.(*ssa.Convert); ok {
			inner = c.X
		} else {
			inner = x.(*ssa.ChangeType).X
		}
		it.staticValue(inner, cell, in, depth+1)
	case *ssa.MakeInterface:
		it.staticValue(x.X, cell, in, depth+1)
	case *ssa.Function:
		if !cell.aggregate() {
			cell.V = IVal{K: ivOpaque, S: "func " + FNm(x), NonNil: true, F: x}
		}
	case *ssa.Call:
		// a value computed once by a function of the analysed packages that takes nothing (var t = func() (a [256]bool)
		// { … }()): evaluated
		var f *ssa.Function
		switch cv := x.Call.Value.(type) {
		case *ssa.Function:
			f = cv
		case *ssa.MakeClosure:
			if len(cv.Bindings) == 0 {
				f, _ = cv.Fn.(*ssa.Function)
			}
		}
		if f == nil || len(f.Params) != 0 || len(x.Call.Args) != 0 || len(f.Blocks) == 0 || !curProgRoot(f) && f.Parent() == nil {
			cell.V = IVal{K: ivOpaque, S: "initialiser call"}
			return
		}
		saved := it.steps
		r, err := it.run(f, nil, depth+1)
		it.steps = saved
		if err != nil || len(r) != 1 {
			cell.V = IVal{K: ivOpaque, S: "initialiser call"}
			return
		}
		if r[0].K == ivAgg && cell.aggregate() && r[0].P != nil {
			cell.copyFrom(r[0].P)
		} else if !cell.aggregate() {
			cell.V = r[0]
		} else {
			cell.V = IVal{K: ivOpaque, S: "initialiser call"}
		}
	case *ssa.MakeMap:
		// a map literal: every MapUpdate on it in the initialiser with an evident key and value
		m := map[string]IVal{}
		good := true
		if x.Referrers() != nil {
			for _, r := range *x.Referrers() {
				mu, ok := r.(*ssa.MapUpdate)
				if !ok || mu.Map != ssa.Value(x) {
					continue
				}
				kc, ok1 := mu.Key.(*ssa.Const)
				if !ok1 {
					good = false
					continue
				}
				tmp := newCell(mu.Value.Type())
				it.staticValue(mu.Value, tmp, in, depth+1)
				k := mapKey(it.constVal(kc))
				if k == "" {
					good = false
					continue
				}
				m[k] = cellValue(tmp)
			}
		}
		if good {
			mt, _ := types.Unalias(x.Type()).Underlying().(*types.Map)
			z := IVal{K: ivOpaque, S: "zero"}
			if mt != nil {
				z = zeroOf(mt.Elem())
			}
			cell.V = IVal{K: ivMap, M: m, MZero: &z, NonNil: true}
		} else {
			cell.V = IVal{K: ivOpaque, S: "map initialiser"}
		}
	default:
		if !cell.aggregate() {
			cell.V = IVal{K: ivOpaque, S: "initialiser " + v.Name()}
		}
	}
}

func (it *Interp) constVal(k *ssa.Const) IVal {
	if k.Value == nil {
		if _, isBasic := k.Type().Underlying().(*types.Basic); isBasic {
			return zeroOf(k.Type())
		}
		if _, isArr := k.Type().Underlying().(*types.Array); isArr {
			return IVal{K: ivOpaque, S: "zero aggregate"}
		}
		if _, isStruct := k.Type().Underlying().(*types.Struct); isStruct {
			return IVal{K: ivOpaque, S: "zero aggregate"}
		}
		return IVal{K: ivNil}
	}
	switch k.Value.Kind() {
	case constant.Int:
		n, _ := constant.Int64Val(k.Value)
		return IInt(n)
	case constant.String:
		return IStr(constant.StringVal(k.Value))
	case constant.Bool:
		return IVal{K: ivBool, B: constant.BoolVal(k.Value)}
	}
	return IVal{K: ivOpaque, S: k.String()}
}

// Run evaluates fn on the given arguments and returns its results.
func (it *Interp) Run(fn *ssa.Function, args []IVal) ([]IVal, error) {
	it.steps = 0
	return it.run(fn, args, 0)
}

func (it *Interp) run(fn *ssa.Function, args []IVal, depth int) ([]IVal, error) {
	if depth > 10 {
		return nil, fmt.Errorf("call depth exceeded in %s", fn)
	}
	if len(fn.Blocks) == 0 {
		return nil, fmt.Errorf("no body for %s", fn)
	}
	if len(args) != len(fn.Params) {
		return nil, fmt.Errorf("%s: %d arguments for %d parameters", fn, len(args), len(fn.Params))
	}
	env := map[ssa.Value]IVal{}
	for i, p := range fn.Params {
		env[p] = args[i]
	}
	if fb := it.pendingFB; len(fb) > 0 && len(fb) == len(fn.FreeVars) {
		for i, fv := range fn.FreeVars {
			env[fv] = fb[i]
		}
	}
	it.pendingFB = nil
	var get func(v ssa.Value) IVal
	get = func(v ssa.Value) IVal {
		if x, ok := env[v]; ok {
			return x
		}
		switch x := v.(type) {
		case *ssa.Const:
			return it.constVal(x)
		case *ssa.Global:
			return IPtr(it.globalCell(x))
		case *ssa.Function:
			return IVal{K: ivOpaque, S: "func " + FNm(x), NonNil: true, F: x}
		}
		return IVal{K: ivOpaque, S: v.Name()}
	}
	blk := fn.Blocks[0]
	var prev *ssa.BasicBlock
	for {
		var next *ssa.BasicBlock
		for _, in := range blk.Instrs {
			it.steps++
			if it.steps > 200000 {
				return nil, fmt.Errorf("step budget exceeded in %s", fn)
			}
			switch x := in.(type) {
			case *ssa.DebugRef:
			case *ssa.Phi:
				for k, p := range blk.Preds {
					if p == prev {
						env[x] = get(x.Edges[k])
					}
				}
			case *ssa.Alloc:
				env[x] = IPtr(newCell(x.Type().(*types.Pointer).Elem()))
			case *ssa.MakeClosure:
				// a function literal or a method value (l.unmarshalText): the function and what it closes over
				if f, isF := x.Fn.(*ssa.Function); isF {
					cv := IVal{K: ivOpaque, S: "func " + f.Name(), NonNil: true, F: f}
					for _, b := range x.Bindings {
						cv.FB = append(cv.FB, get(b))
					}
					env[x] = cv
				}
			case *ssa.Store:
				a := get(x.Addr)
				if a.K != ivPtr {
					return nil, fmt.Errorf("%s: store through %s", FNm(fn), a)
				}
				v := get(x.Val)
				a.P.Written++
				if v.K == ivAgg && a.P.aggregate() && v.P != nil {
					a.P.copyFrom(v.P)
				} else {
					a.P.V = v
				}
			case *ssa.UnOp:
				o := get(x.X)
				switch x.Op {
				case token.MUL:
					if o.K != ivPtr {
						env[x] = IVal{K: ivOpaque, S: "load through " + o.String()}
					} else {
						env[x] = cellValue(o.P)
					}
				case token.NOT:
					if o.K == ivBool {
						env[x] = IVal{K: ivBool, B: !o.B}
					} else {
						env[x] = IVal{K: ivOpaque, S: "!" + o.String()}
					}
				case token.SUB:
					if o.K == ivInt {
						env[x] = IInt(truncInt(-o.I, x.Type()))
					} else {
						env[x] = IVal{K: ivOpaque, S: "-" + o.String()}
					}
				default:
					env[x] = IVal{K: ivOpaque, S: x.Op.String()}
				}
			case *ssa.BinOp:
				env[x] = binop(x.Op, get(x.X), get(x.Y), x.Type(), x.X.Type())
			case *ssa.Convert:
				o := get(x.X)
				tb, _ := x.Type().Underlying().(*types.Basic)
				_, toSlice := x.Type().Underlying().(*types.Slice)
				switch {
				case o.K == ivInt && tb != nil && tb.Info()&types.IsInteger != 0:
					env[x] = IInt(truncInt(o.I, x.Type()))
				case o.K == ivBytes && tb != nil && tb.Info()&types.IsString != 0:
					env[x] = IStr(o.S)
				case o.K == ivStr && toSlice:
					env[x] = IBytes(o.S)
				case o.K == ivSlice && tb != nil && tb.Info()&types.IsString != 0:
					// string(b) of a byte slice backed by an array whose elements are all evident
					if el, ok := sliceElems(o); ok {
						bs := make([]byte, 0, len(el))
						good := true
						for _, e := range el {
							if e.K != ivInt {
								good = false
								break
							}
							bs = append(bs, byte(e.I))
						}
						if good {
							env[x] = IStr(string(bs))
							break
						}
					}
					env[x] = IVal{K: ivOpaque, S: "convert " + o.String()}
				case o.K == ivNil && tb != nil && tb.Info()&types.IsString != 0:
					env[x] = IStr("")
				default:
					env[x] = IVal{K: ivOpaque, S: "convert " + o.String()}
				}
			case *ssa.ChangeType:
				env[x] = get(x.X)
			case *ssa.ChangeInterface:
				env[x] = get(x.X)
			case *ssa.MakeInterface:
				o := get(x.X)
				if o.K == ivNil || o.K == ivOpaque {
					// a typed nil / unknown value inside an interface is a non-nil interface
					o = IVal{K: ivOpaque, S: "iface(" + o.String() + ")", NonNil: true}
				}
				env[x] = o
			case *ssa.IndexAddr:
				base, idx := get(x.X), get(x.Index)
				if (base.K == ivPtr || base.K == ivSlice) && base.P != nil && base.P.Elems != nil && idx.K == ivInt {
					ix := idx.I
					if base.K == ivSlice {
						if ix < 0 || ix >= base.Hi-base.Lo {
							return nil, &IPanic{fmt.Sprintf("%s: index %d out of range", FNm(fn), ix)}
						}
						ix += base.Lo
					}
					e := base.P.Elems[ix]
					if e == nil {
						return nil, &IPanic{fmt.Sprintf("%s: index %d out of range", FNm(fn), idx.I)}
					}
					env[x] = IPtr(e)
				} else {
					env[x] = IVal{K: ivOpaque, S: "indexaddr"}
				}
			case *ssa.Index:
				base, idx := get(x.X), get(x.Index)
				switch {
				case base.K == ivAgg && idx.K == ivInt:
					e := base.P.Elems[idx.I]
					if e == nil {
						return nil, &IPanic{fmt.Sprintf("%s: index %d out of range", FNm(fn), idx.I)}
					}
					env[x] = cellValue(e)
				case base.K == ivStr && idx.K == ivInt && idx.I >= 0 && idx.I < int64(len(base.S)):
					env[x] = IInt(int64(base.S[idx.I]))
				default:
					env[x] = IVal{K: ivOpaque, S: "index"}
				}
			case *ssa.Slice:
				base := get(x.X)
				switch {
				case (base.K == ivPtr || base.K == ivSlice) && base.P != nil && base.P.Elems != nil:
					lo, hi := int64(0), base.P.N
					if base.K == ivSlice {
						lo, hi = base.Lo, base.Hi
					}
					okB := true
					if x.Low != nil {
						l := get(x.Low)
						okB = okB && l.K == ivInt
						lo += l.I
					}
					if x.High != nil {
						h := get(x.High)
						okB = okB && h.K == ivInt
						if base.K == ivSlice {
							hi = base.Lo + h.I
						} else {
							hi = h.I
						}
					}
					if okB && lo >= 0 && lo <= hi && hi <= base.P.N {
						env[x] = IVal{K: ivSlice, P: base.P, Lo: lo, Hi: hi, NonNil: true}
					} else {
						env[x] = IVal{K: ivOpaque, S: "slice"}
					}
				case base.K == ivStr || base.K == ivBytes:
					lo, hi := int64(0), int64(len(base.S))
					okB := true
					if x.Low != nil {
						l := get(x.Low)
						okB = okB && l.K == ivInt
						lo = l.I
					}
					if x.High != nil {
						h := get(x.High)
						okB = okB && h.K == ivInt
						hi = h.I
					}
					if okB && lo >= 0 && lo <= hi && hi <= int64(len(base.S)) {
						env[x] = IVal{K: base.K, S: base.S[lo:hi]}
					} else {
						env[x] = IVal{K: ivOpaque, S: "slice"}
					}
				default:
					env[x] = IVal{K: ivOpaque, S: "slice"}
				}
			case *ssa.FieldAddr:
				base := get(x.X)
				if base.K == ivPtr && base.P != nil && x.Field < len(base.P.Fields) {
					env[x] = IPtr(base.P.Fields[x.Field])
				} else {
					env[x] = IVal{K: ivOpaque, S: "fieldaddr"}
				}
			case *ssa.Field:
				base := get(x.X)
				if base.K == ivAgg && base.P != nil && x.Field < len(base.P.Fields) {
					env[x] = cellValue(base.P.Fields[x.Field])
				} else {
					env[x] = IVal{K: ivOpaque, S: "field"}
				}
			case *ssa.Lookup:
				base, idx := get(x.X), get(x.Index)
				k := mapKey(idx)
				switch {
				case base.K == ivMap && k != "":
					v, found := base.M[k]
					if !found && base.MZero != nil {
						v = *base.MZero
					}
					if x.CommaOk {
						env[x] = IVal{K: ivTuple, T: []IVal{v, bi(found)}}
					} else {
						env[x] = v
					}
				case (base.K == ivStr || base.K == ivBytes) && idx.K == ivInt && idx.I >= 0 && idx.I < int64(len(base.S)):
					env[x] = IInt(int64(base.S[idx.I]))
				default:
					env[x] = IVal{K: ivOpaque, S: "lookup"}
				}
			case *ssa.Extract:
				t := get(x.Tuple)
				if t.K == ivTuple && x.Index < len(t.T) {
					env[x] = t.T[x.Index]
				} else {
					env[x] = IVal{K: ivOpaque, S: "extract"}
				}
			case *ssa.Call:
				v, err := it.call(x, get, depth)
				if err != nil {
					return nil, err
				}
				env[x] = v
			case *ssa.If:
				cnd := get(x.Cond)
				if cnd.K != ivBool {
					return nil, fmt.Errorf("%s: branch on %s (%s)", FNm(fn), cnd, Desc(x.Cond))
				}
				if cnd.B {
					next = blk.Succs[0]
				} else {
					next = blk.Succs[1]
				}
			case *ssa.Jump:
				next = blk.Succs[0]
			case *ssa.Return:
				var out []IVal
				for _, r := range x.Results {
					out = append(out, get(r))
				}
				return out, nil
			case *ssa.Panic:
				return nil, fmt.Errorf("%s: panics", FNm(fn))
			case ssa.Value:
				env[x] = IVal{K: ivOpaque, S: fmt.Sprintf("%T", in)}
			default:
				return nil, fmt.Errorf("%s: unmodelled instruction %T", FNm(fn), in)
			}
		}
		if next == nil {
			return nil, fmt.Errorf("%s: fell off block %d", FNm(fn), blk.Index)
		}
		prev, blk = blk, next
	}
}

func bi(b bool) IVal { return IVal{K: ivBool, B: b} }

func binop(op token.Token, a, b IVal, rt, ot types.Type) IVal {
	isNilish := func(v IVal) (known, isNil bool) {
		switch v.K {
		case ivNil:
			return true, true
		case ivPtr, ivSlice, ivInt, ivStr, ivBool:
			return true, false
		case ivBytes:
			return false, false
		case ivOpaque:
			if v.NonNil {
				return true, false
			}
		}
		return false, false
	}
	switch {
	case a.K == ivInt && b.K == ivInt:
		switch op {
		case token.ADD:
			return IInt(truncInt(a.I+b.I, rt))
		case token.SUB:
			return IInt(truncInt(a.I-b.I, rt))
		case token.MUL:
			return IInt(truncInt(a.I*b.I, rt))
		case token.QUO:
			if b.I != 0 {
				return IInt(truncInt(a.I/b.I, rt))
			}
		case token.REM:
			if b.I != 0 {
				return IInt(truncInt(a.I%b.I, rt))
			}
		case token.AND:
			return IInt(a.I & b.I)
		case token.OR:
			return IInt(a.I | b.I)
		case token.XOR:
			return IInt(truncInt(a.I^b.I, rt))
		case token.SHL:
			if b.I >= 0 && b.I < 63 {
				return IInt(truncInt(a.I<<uint(b.I), rt))
			}
		case token.SHR:
			if b.I >= 0 && b.I < 64 {
				return IInt(truncInt(a.I>>uint(b.I), rt))
			}
		case token.EQL:
			return bi(a.I == b.I)
		case token.NEQ:
			return bi(a.I != b.I)
		case token.LSS:
			return bi(a.I < b.I)
		case token.LEQ:
			return bi(a.I <= b.I)
		case token.GTR:
			return bi(a.I > b.I)
		case token.GEQ:
			return bi(a.I >= b.I)
		}
	case a.K == ivStr && b.K == ivStr:
		switch op {
		case token.ADD:
			return IStr(a.S + b.S)
		case token.EQL:
			return bi(a.S == b.S)
		case token.NEQ:
			return bi(a.S != b.S)
		case token.LSS:
			return bi(a.S < b.S)
		case token.LEQ:
			return bi(a.S <= b.S)
		case token.GTR:
			return bi(a.S > b.S)
		case token.GEQ:
			return bi(a.S >= b.S)
		}
	case a.K == ivBool && b.K == ivBool:
		switch op {
		case token.EQL:
			return bi(a.B == b.B)
		case token.NEQ:
			return bi(a.B != b.B)
		case token.AND, token.LAND:
			return bi(a.B && b.B)
		case token.OR, token.LOR:
			return bi(a.B || b.B)
		}
	case op == token.EQL || op == token.NEQ:
		ka, na := isNilish(a)
		kb, nb := isNilish(b)
		if ka && kb && (na || nb) {
			eq := na == nb
			return bi(eq == (op == token.EQL))
		}
		if a.K == ivPtr && b.K == ivPtr {
			return bi((a.P == b.P) == (op == token.EQL))
		}
	}
	return IVal{K: ivOpaque, S: a.String() + " " + op.String() + " " + b.String()}
}

func sliceElems(v IVal) ([]IVal, bool) {
	if v.K == ivNil {
		return nil, true
	}
	if v.K != ivSlice || v.P == nil || v.P.Elems == nil {
		return nil, false
	}
	var out []IVal
	for i := v.Lo; i < v.Hi; i++ {
		out = append(out, v.P.Elems[i].V)
	}
	return out, true
}

func (it *Interp) call(x *ssa.Call, get func(ssa.Value) IVal, depth int) (IVal, error) {
	if b := CallBuiltin(x); b != "" {
		switch b {
		case "len":
			a := get(x.Call.Args[0])
			switch a.K {
			case ivStr, ivBytes:
				return IInt(int64(len(a.S))), nil
			case ivNil:
				return IInt(0), nil
			case ivSlice:
				return IInt(a.Hi - a.Lo), nil
			case ivAgg:
				return IInt(a.P.N), nil
			}
		case "copy":
			dst, src := get(x.Call.Args[0]), get(x.Call.Args[1])
			if dst.K == ivSlice && dst.P != nil && dst.P.Elems != nil {
				var data []IVal
				switch src.K {
				case ivStr, ivBytes:
					for i := 0; i < len(src.S); i++ {
						data = append(data, IInt(int64(src.S[i])))
					}
				case ivSlice:
					if el, ok := sliceElems(src); ok {
						data = el
					} else {
						return IVal{K: ivOpaque, S: "builtin copy"}, nil
					}
				case ivNil:
				default:
					return IVal{K: ivOpaque, S: "builtin copy"}, nil
				}
				n := int64(len(data))
				if dst.Hi-dst.Lo < n {
					n = dst.Hi - dst.Lo
				}
				for i := int64(0); i < n; i++ {
					if e := dst.P.Elems[dst.Lo+i]; e != nil {
						e.V = data[i]
					}
				}
				return IInt(n), nil
			}
		}
		return IVal{K: ivOpaque, S: "builtin " + b}, nil
	}
	var args []IVal
	for _, a := range Args(x) {
		args = append(args, get(a))
	}
	if it.OnCall != nil {
		if v, ok := it.OnCall(x, args); ok {
			return v, nil
		}
	}
	callee := x.Call.StaticCallee()
	var freeBind []IVal
	dynName := ""
	if callee == nil && !x.Call.IsInvoke() {
		// a call through a function value that is evident (an entry of a constant table of functions)
		if fv := get(x.Call.Value); fv.F != nil {
			bound := len(fv.F.FreeVars) > 0 && len(fv.FB) == len(fv.F.FreeVars) && (fv.F.Parent() != nil || strings.HasSuffix(fv.F.Name(), "$bound"))
			if len(fv.F.Blocks) > 0 && (curProgRoot(fv.F) || fv.F.Parent() != nil && len(fv.F.FreeVars) == 0 || bound) {
				callee = fv.F
				if bound {
					freeBind = fv.FB
				}
			} else {
				dynName = FStr(fv.F)
			}
		}
	}
	if callee != nil && len(callee.Blocks) > 0 && (curProgRoot(callee) || callee.Parent() != nil && len(callee.FreeVars) == 0 || freeBind != nil) {
		it.pendingFB = freeBind
		res, err := it.run(callee, args, depth+1)
		if err != nil {
			return IVal{}, err
		}
		switch len(res) {
		case 0:
			return IVal{K: ivTuple}, nil
		case 1:
			return res[0], nil
		}
		return IVal{K: ivTuple, T: res}, nil
	}
	name := dynName
	if f := CalleeFunc(x); f != nil {
		name = f.FullName()
	}
	strFn := map[string]func(string) string{
		"ToLower": strings.ToLower, "ToUpper": strings.ToUpper, "TrimSpace": strings.TrimSpace, "ToTitle": strings.ToTitle,
	}
	for _, pk := range []string{"bytes.", "strings."} {
		if strings.HasPrefix(name, pk) {
			if f, ok := strFn[strings.TrimPrefix(name, pk)]; ok && len(args) == 1 && (args[0].K == ivStr || args[0].K == ivBytes) {
				if pk == "bytes." {
					// bytes.* operate on bytes; for the ASCII corpora used here strings.* agrees
					return IVal{K: args[0].K, S: string(bytesFn(strings.TrimPrefix(name, pk))([]byte(args[0].S)))}, nil
				}
				return IVal{K: args[0].K, S: f(args[0].S)}, nil
			}
		}
	}
	// pure character-class functions of the standard library, evaluated natively
	if len(args) == 1 && args[0].K == ivInt {
		r := rune(args[0].I)
		switch name {
		case "unicode.IsLetter":
			return bi(unicode.IsLetter(r)), nil
		case "unicode.IsDigit":
			return bi(unicode.IsDigit(r)), nil
		case "unicode.IsNumber":
			return bi(unicode.IsNumber(r)), nil
		case "unicode.IsUpper":
			return bi(unicode.IsUpper(r)), nil
		case "unicode.IsLower":
			return bi(unicode.IsLower(r)), nil
		case "unicode.IsSpace":
			return bi(unicode.IsSpace(r)), nil
		case "unicode.ToLower":
			return IInt(int64(unicode.ToLower(r))), nil
		case "unicode.ToUpper":
			return IInt(int64(unicode.ToUpper(r))), nil
		}
	}
	if len(args) == 2 && (args[0].K == ivStr || args[0].K == ivBytes) && args[1].K == ivInt {
		switch name {
		case "strings.ContainsRune", "bytes.ContainsRune":
			return bi(strings.ContainsRune(args[0].S, rune(args[1].I))), nil
		case "strings.IndexByte", "bytes.IndexByte":
			return IInt(int64(strings.IndexByte(args[0].S, byte(args[1].I)))), nil
		case "strings.IndexRune", "bytes.IndexRune":
			return IInt(int64(strings.IndexRune(args[0].S, rune(args[1].I)))), nil
		}
	}
	if len(args) == 2 && args[0].K == ivStr && args[1].K == ivStr {
		switch name {
		case "strings.Contains":
			return bi(strings.Contains(args[0].S, args[1].S)), nil
		case "strings.ContainsAny":
			return bi(strings.ContainsAny(args[0].S, args[1].S)), nil
		case "strings.HasPrefix":
			return bi(strings.HasPrefix(args[0].S, args[1].S)), nil
		case "strings.HasSuffix":
			return bi(strings.HasSuffix(args[0].S, args[1].S)), nil
		}
	}
	switch name {
	case "strings.EqualFold":
		if len(args) == 2 && args[0].K == ivStr && args[1].K == ivStr {
			return bi(strings.EqualFold(args[0].S, args[1].S)), nil
		}
	case "bytes.EqualFold":
		if len(args) == 2 && args[0].K == ivBytes && args[1].K == ivBytes {
			return bi(strings.EqualFold(args[0].S, args[1].S)), nil
		}
	case "bytes.Equal":
		if len(args) == 2 && args[0].K == ivBytes && args[1].K == ivBytes {
			return bi(args[0].S == args[1].S), nil
		}
	case "fmt.Sprintf":
		if len(args) == 2 && args[0].K == ivStr {
			if el, ok := sliceElems(args[1]); ok {
				var ia []interface{}
				simple := true
				for _, e := range el {
					switch e.K {
					case ivInt:
						ia = append(ia, e.I)
					case ivStr:
						ia = append(ia, e.S)
					case ivBytes:
						ia = append(ia, []byte(e.S))
					default:
						simple = false
					}
				}
				// %v and %s would go through String()/Error() methods of the static type, which is lost here
				if simple && !strings.Contains(args[0].S, "%v") && !strings.Contains(args[0].S, "%s") {
					return IStr(fmt.Sprintf(args[0].S, ia...)), nil
				}
			}
			return IVal{K: ivOpaque, S: "Sprintf " + args[0].S}, nil
		}
	case "fmt.Errorf", "errors.New":
		s := ""
		if len(args) > 0 {
			s = args[0].S
		}
		return IVal{K: ivOpaque, S: "error " + s, NonNil: true}, nil
	}
	it.Unknown = append(it.Unknown, name+" "+Desc(x))
	return IVal{K: ivOpaque, S: "call " + name}, nil
}

func bytesFn(n string) func([]byte) []byte {
	switch n {
	case "ToLower":
		return bytes.ToLower
	case "ToUpper":
		return bytes.ToUpper
	case "TrimSpace":
		return bytes.TrimSpace
	case "ToTitle":
		return bytes.ToTitle
	}
	return func(b []byte) []byte { return b }
}
