// zvifswap: a development aid for the behaviour-preserving probe scripts/ifswap_probe.sh. It rewrites every
// `if c { A } else { B }` of the named files into `if !c { B } else { A }` (comparisons are negated by flipping the
// operator), nested ones included. The program is the same; only the order of the two branches differs.
//
//	zvifswap FILE...
package main

import (
	"fmt"
	"go/ast"
	"go/format"
	"go/parser"
	"go/token"
	"os"
	"sort"
)

var flip = map[token.Token]token.Token{
	token.EQL: token.NEQ, token.NEQ: token.EQL, token.LSS: token.GEQ, token.GEQ: token.LSS, token.GTR: token.LEQ, token.LEQ: token.GTR,
}

func main() {
	total := 0
	args := os.Args[1:]
	guard := false
	if len(args) > 0 && args[0] == "-mirror" {
		// -mirror: every comparison `a < b` inside a function becomes `b > a` (== and != swap their operands)
		for _, file := range args[1:] {
			n, err := mirror(file)
			if err != nil {
				fmt.Println(file, err)
				os.Exit(2)
			}
			total += n
		}
		fmt.Printf("mirrored %d comparisons in %d files\n", total, len(args)-1)
		return
	}
	if len(args) > 0 && args[0] == "-condvar" {
		// -condvar: `if a && b {` (a statement of a block, no init) becomes `zvC1 := a && b; if zvC1 {`
		for _, file := range args[1:] {
			n, err := condVar(file)
			if err != nil {
				fmt.Println(file, err)
				os.Exit(2)
			}
			total += n
		}
		fmt.Printf("named %d conditions in %d files\n", total, len(args)-1)
		return
	}
	if len(args) > 0 && (args[0] == "-guard" || args[0] == "-guardall") {
		// -guard: `if c { ...; return }; rest` at the top level of a function becomes `if c { ...; return } else { rest }`
		// (the first such guard of every function; -guardall: every one, nesting deeper each time)
		guard = true
		all := args[0] == "-guardall"
		args = args[1:]
		for _, file := range args {
			n, err := guardElse(file, all)
			if err != nil {
				fmt.Println(file, err)
				os.Exit(2)
			}
			total += n
		}
		fmt.Printf("turned %d guards into if/else in %d files\n", total, len(args))
	}
	if guard {
		return
	}
	for _, file := range args {
		src, err := os.ReadFile(file)
		if err != nil {
			fmt.Println(err)
			os.Exit(2)
		}
		fset := token.NewFileSet()
		f, err := parser.ParseFile(fset, file, src, parser.ParseComments)
		if err != nil {
			fmt.Println(err)
			os.Exit(2)
		}
		off := func(p token.Pos) int { return fset.Position(p).Offset }
		var ifs []*ast.IfStmt
		ast.Inspect(f, func(n ast.Node) bool {
			if s, ok := n.(*ast.IfStmt); ok {
				if _, isBlock := s.Else.(*ast.BlockStmt); isBlock {
					ifs = append(ifs, s)
				}
			}
			return true
		})
		sort.Slice(ifs, func(i, j int) bool { return ifs[i].Pos() < ifs[j].Pos() })
		// comments between the closing brace of the body and the else block would be lost: leave such statements alone
		ok := map[*ast.IfStmt]bool{}
		for _, s := range ifs {
			ok[s] = true
			for _, cg := range f.Comments {
				if cg.Pos() >= s.Body.End() && cg.End() <= s.Else.Pos() {
					ok[s] = false
				}
			}
		}
		var textOf func(lo, hi int) string
		negate := func(e ast.Expr) string {
			switch x := e.(type) {
			case *ast.BinaryExpr:
				// an ordering comparison is flipped only where it is evidently one of integers (with a NaN, !(a < b) is not a >= b)
				evidentInt := func(e ast.Expr) bool {
					if bl, isLit := e.(*ast.BasicLit); isLit {
						return bl.Kind == token.INT
					}
					if call, isCall := e.(*ast.CallExpr); isCall {
						if id, isId := call.Fun.(*ast.Ident); isId {
							return id.Name == "len" || id.Name == "cap"
						}
					}
					return false
				}
				if nop, isCmp := flip[x.Op]; isCmp && (x.Op == token.EQL || x.Op == token.NEQ || evidentInt(x.X) || evidentInt(x.Y)) {
					return textOf(off(x.X.Pos()), off(x.X.End())) + " " + nop.String() + " " + textOf(off(x.Y.Pos()), off(x.Y.End()))
				}
			case *ast.UnaryExpr:
				if x.Op == token.NOT {
					return textOf(off(x.X.Pos()), off(x.X.End()))
				}
			case *ast.Ident, *ast.SelectorExpr, *ast.CallExpr:
				return "!" + textOf(off(e.Pos()), off(e.End()))
			}
			return "!(" + textOf(off(e.Pos()), off(e.End())) + ")"
		}
		swapped := func(s *ast.IfStmt) string {
			out := "if "
			if s.Init != nil {
				out += textOf(off(s.Init.Pos()), off(s.Init.End())) + "; "
			}
			out += negate(s.Cond) + " "
			out += textOf(off(s.Else.Pos()), off(s.Else.End())) + " else " + textOf(off(s.Body.Pos()), off(s.Body.End()))
			return out
		}
		textOf = func(lo, hi int) string {
			out := ""
			at := lo
			for _, s := range ifs {
				a, b := off(s.Pos()), off(s.End())
				if !ok[s] || a < at || b > hi || a < lo {
					continue
				}
				out += string(src[at:a]) + swapped(s)
				at = b
				total++
			}
			return out + string(src[at:hi])
		}
		res := textOf(0, len(src))
		fm, err := format.Source([]byte(res))
		if err != nil {
			fmt.Println(file, err)
			os.Exit(2)
		}
		if err := os.WriteFile(file, fm, 0o644); err != nil {
			fmt.Println(err)
			os.Exit(2)
		}
	}
	fmt.Printf("swapped %d if/else statements in %d files\n", total, len(args))
}

func guardElse(file string, all bool) (int, error) {
	src, err := os.ReadFile(file)
	if err != nil {
		return 0, err
	}
	fset := token.NewFileSet()
	f, err := parser.ParseFile(fset, file, src, parser.ParseComments)
	if err != nil {
		return 0, err
	}
	off := func(p token.Pos) int { return fset.Position(p).Offset }
	type ins struct {
		at   int
		text string
		ord  int
	}
	var edits []ins
	n := 0
	terminates := func(b *ast.BlockStmt) bool {
		if len(b.List) == 0 {
			return false
		}
		switch x := b.List[len(b.List)-1].(type) {
		case *ast.ReturnStmt:
			return true
		case *ast.ExprStmt:
			if call, ok := x.X.(*ast.CallExpr); ok {
				if id, ok := call.Fun.(*ast.Ident); ok && id.Name == "panic" {
					return true
				}
			}
		}
		return false
	}
	hasLabel := func(b *ast.BlockStmt) bool {
		found := false
		ast.Inspect(b, func(n ast.Node) bool {
			switch n.(type) {
			case *ast.LabeledStmt:
				found = true
			case *ast.BranchStmt:
				if n.(*ast.BranchStmt).Tok == token.GOTO {
					found = true
				}
			}
			return true
		})
		return found
	}
	do := func(body *ast.BlockStmt) {
		if body == nil || hasLabel(body) {
			return
		}
		for i, st := range body.List {
			s, ok := st.(*ast.IfStmt)
			if !ok || s.Else != nil || s.Init != nil || !terminates(s.Body) || i == len(body.List)-1 { // an Init would scope over the new else block
				continue
			}
			edits = append(edits, ins{off(s.End()), " else {", 1}, ins{off(body.Rbrace), "}\n", 0})
			n++
			if !all {
				break
			}
		}
	}
	ast.Inspect(f, func(nd ast.Node) bool {
		switch x := nd.(type) {
		case *ast.FuncDecl:
			do(x.Body)
		case *ast.FuncLit:
			do(x.Body)
		}
		return true
	})
	sort.SliceStable(edits, func(i, j int) bool {
		if edits[i].at != edits[j].at {
			return edits[i].at > edits[j].at
		}
		return edits[i].ord > edits[j].ord
	})
	b := src
	for _, e := range edits {
		b = append(b[:e.at:e.at], append([]byte(e.text), b[e.at:]...)...)
	}
	fm, err := format.Source(b)
	if err != nil {
		return 0, err
	}
	return n, os.WriteFile(file, fm, 0o644)
}

func condVar(file string) (int, error) {
	src, err := os.ReadFile(file)
	if err != nil {
		return 0, err
	}
	fset := token.NewFileSet()
	f, err := parser.ParseFile(fset, file, src, parser.ParseComments)
	if err != nil {
		return 0, err
	}
	off := func(p token.Pos) int { return fset.Position(p).Offset }
	type rep struct {
		a, b int
		text string
	}
	var reps []rep
	n := 0
	ast.Inspect(f, func(nd ast.Node) bool {
		var list []ast.Stmt
		switch x := nd.(type) {
		case *ast.BlockStmt:
			list = x.List
		case *ast.CaseClause:
			list = x.Body
		case *ast.CommClause:
			list = x.Body
		}
		for _, st := range list {
			s, ok := st.(*ast.IfStmt)
			if !ok || s.Init != nil {
				continue
			}
			switch s.Cond.(type) {
			case *ast.Ident:
				continue
			}
			n++
			name := fmt.Sprintf("zvC%d", n)
			cond := string(src[off(s.Cond.Pos()):off(s.Cond.End())])
			reps = append(reps, rep{off(s.Pos()), off(s.Cond.End()), name + " := " + cond + "\nif " + name})
		}
		return true
	})
	sort.Slice(reps, func(i, j int) bool { return reps[i].a > reps[j].a })
	b := src
	// nested: an inner replacement lies inside the body of an outer statement, after the outer condition - offsets of
	// earlier positions are untouched when applied from the end
	for _, r := range reps {
		b = append(b[:r.a:r.a], append([]byte(r.text), b[r.b:]...)...)
	}
	fm, err := format.Source(b)
	if err != nil {
		return 0, err
	}
	return n, os.WriteFile(file, fm, 0o644)
}

func mirror(file string) (int, error) {
	src, err := os.ReadFile(file)
	if err != nil {
		return 0, err
	}
	fset := token.NewFileSet()
	f, err := parser.ParseFile(fset, file, src, parser.ParseComments)
	if err != nil {
		return 0, err
	}
	off := func(p token.Pos) int { return fset.Position(p).Offset }
	rev := map[token.Token]token.Token{token.EQL: token.EQL, token.NEQ: token.NEQ, token.LSS: token.GTR, token.GTR: token.LSS, token.LEQ: token.GEQ, token.GEQ: token.LEQ}
	n := 0
	var render func(lo, hi int, within ast.Node) string
	var cmps []*ast.BinaryExpr
	for _, d := range f.Decls {
		fd, ok := d.(*ast.FuncDecl)
		if !ok || fd.Body == nil {
			continue
		}
		ast.Inspect(fd.Body, func(nd ast.Node) bool {
			if b, ok := nd.(*ast.BinaryExpr); ok {
				if _, isCmp := rev[b.Op]; isCmp {
					cmps = append(cmps, b)
				}
			}
			return true
		})
	}
	sort.Slice(cmps, func(i, j int) bool {
		if cmps[i].Pos() != cmps[j].Pos() {
			return cmps[i].Pos() < cmps[j].Pos()
		}
		return cmps[i].End() > cmps[j].End()
	})
	render = func(lo, hi int, within ast.Node) string {
		out := ""
		at := lo
		for _, b := range cmps {
			a, e := off(b.Pos()), off(b.End())
			if ast.Node(b) == within || a < at || e > hi {
				continue
			}
			n++
			out += string(src[at:a]) + render(off(b.Y.Pos()), off(b.Y.End()), b) + " " + rev[b.Op].String() + " " + render(off(b.X.Pos()), off(b.X.End()), b)
			at = e
		}
		return out + string(src[at:hi])
	}
	res := render(0, len(src), nil)
	fm, err := format.Source([]byte(res))
	if err != nil {
		return 0, err
	}
	return n, os.WriteFile(file, fm, 0o644)
}
