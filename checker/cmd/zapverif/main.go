package main

import (
	"encoding/json"
	"flag"
	"fmt"
	"os"
	"os/exec"
	"path/filepath"
	"sort"
	"strconv"
	"strings"
	"sync"
	"time"

	"golang.org/x/tools/go/ssa"

	"zapverif/zv"
)

func usage() {
	fmt.Fprintln(os.Stderr, `usage:
  zapverif check <Cxx|all> [--tier quick|thorough] [--repo /repo] [--verif /verif]
  zapverif list
  zapverif dump <pkgpath> <func or (T).Method> [--repo /repo]`)
	os.Exit(2)
}

func main() {
	if len(os.Args) < 2 {
		usage()
	}
	switch os.Args[1] {
	case "check":
		os.Exit(cmdCheck(os.Args[2:]))
	case "list":
		ids := zv.PropIDs()
		for _, id := range ids {
			fmt.Println(id, "-", zv.Props[id].Title)
		}
	case "dump":
		cmdDump(os.Args[2:])
	case "dump-fields":
		p, err := zv.Load("/repo", "", "")
		if err != nil {
			fmt.Println(err)
			os.Exit(2)
		}
		fmt.Print(zv.DumpFieldTable(p))
	case "dump-types":
		p, err := zv.Load("/repo", "", "")
		if err != nil {
			fmt.Println(err)
			os.Exit(2)
		}
		fmt.Print(zv.DumpTypeTable(p))
	case "dump-consts":
		p, err := zv.Load("/repo", "", "")
		if err != nil {
			fmt.Println(err)
			os.Exit(2)
		}
		fmt.Print(zv.DumpConstTable(p))
	case "dump-cmps":
		p, err := zv.Load("/repo", "", "")
		if err != nil {
			fmt.Println(err)
			os.Exit(2)
		}
		fmt.Print(zv.DumpCmpTable(p))
	case "dump-globals":
		p, err := zv.Load("/repo", "", "")
		if err != nil {
			fmt.Println(err)
			os.Exit(2)
		}
		fmt.Print(zv.DumpGlobalTable(p))
	case "dump-funcs":
		p, err := zv.Load("/repo", "", "")
		if err != nil {
			fmt.Println(err)
			os.Exit(2)
		}
		fmt.Print(zv.DumpFuncTable(p))
	case "dump-params":
		// prints the generated table zv/canon_params_gen.go: parameter names of every function of the analysed
		// packages on the tree it is run on (run on the reference tree; see zv.PN)
		p, err := zv.Load("/repo", "", "")
		if err != nil {
			fmt.Println(err)
			os.Exit(2)
		}
		fmt.Print(zv.DumpParamTable(p))
	default:
		usage()
	}
}

func cmdCheck(args []string) int {
	if len(args) < 1 {
		usage()
	}
	id := args[0]
	fs := flag.NewFlagSet("check", flag.ExitOnError)
	tier := fs.String("tier", "quick", "quick|thorough")
	repo := fs.String("repo", "/repo", "path of the zap working tree")
	verif := fs.String("verif", "", "verif dir (default: parent of the binary's dir)")
	fs.Parse(args[1:])
	if t := os.Getenv("VERIF_TIER"); t == "quick" || t == "thorough" {
		// explicit flag wins; env only when flag not given
		given := false
		fs.Visit(func(f *flag.Flag) { given = given || f.Name == "tier" })
		if !given {
			*tier = t
		}
	}
	seed := 0
	if s := os.Getenv("VERIF_SEED"); s != "" {
		seed, _ = strconv.Atoi(s)
	}
	if *verif == "" {
		exe, _ := os.Executable()
		*verif = filepath.Dir(filepath.Dir(exe))
	}
	findings, err := zv.LoadFindings(filepath.Join(*verif, "known_findings.json"))
	if err != nil {
		fmt.Println("cannot read known_findings.json:", err)
		return 2
	}
	var ids []string
	if id == "all" {
		ids = zv.PropIDs()
	} else {
		if _, ok := zv.Props[id]; !ok {
			fmt.Println("unknown property", id)
			return 2
		}
		ids = []string{id}
	}
	start := time.Now()
	zv.Thorough = *tier == "thorough"
	configs := [][2]string{{"", ""}}
	if *tier == "thorough" {
		configs = [][2]string{{"", ""}, {"linux", "386"}, {"windows", "amd64"}, {"darwin", "arm64"}, {"windows", "386"}}
	}
	worst := 0
	for _, pid := range ids {
		rc := runProp(pid, *repo, *verif, *tier, seed, configs, findings, start)
		if rc > worst {
			worst = rc
		}
	}
	return worst
}

var progCache = map[string]*zv.Program{}

func load(repo, goos, goarch string) (*zv.Program, error) {
	k := repo + "|" + goos + "|" + goarch
	if p, ok := progCache[k]; ok {
		return p, nil
	}
	p, err := zv.Load(repo, goos, goarch)
	if err == nil {
		progCache[k] = p
	}
	return p, err
}

func runProp(pid, repo, verif, tier string, seed int, configs [][2]string, findings []zv.Finding, start time.Time) (rc int) {
	defer func() {
		if r := recover(); r != nil {
			fmt.Printf("checker panic while deciding %s: %v\n", pid, r)
			fmt.Printf("UNDECIDED property=%s (checker panic)\n", pid)
			rc = 2
		}
	}()
	prop := zv.Props[pid]
	var merged *zv.Ctx
	var cfgNames []string
	for _, cf := range configs {
		p, err := load(repo, cf[0], cf[1])
		if err != nil {
			fmt.Printf("cannot load %s (%s/%s): %v\n", repo, cf[0], cf[1], err)
			fmt.Printf("UNDECIDED property=%s (load failure)\n", pid)
			return 2
		}
		name := "host"
		if cf[0] != "" {
			name = cf[0] + "/" + cf[1]
		}
		cfgNames = append(cfgNames, name)
		c := zv.NewCtx(p, pid)
		prop.Fn(c)
		if merged == nil {
			merged = c
		} else {
			merged.Merge(c, name)
		}
	}
	ri := zv.RunInfo{Tier: tier, Seed: seed, Start: start, VerifDir: verif, Configs: cfgNames,
		Explanation: prop.Explanation, Assumptions: prop.Assumptions}
	if tier == "thorough" && os.Getenv("ZAPVERIF_NO_SELFTEST") == "" {
		ri.Extra = selftest(pid, repo, verif)
	}
	return merged.Finish(ri, findings)
}

func cmdDump(args []string) {
	if len(args) < 2 {
		usage()
	}
	repo := "/repo"
	if len(args) >= 4 && args[2] == "--repo" {
		repo = args[3]
	}
	p, err := zv.Load(repo, "", "")
	if err != nil {
		fmt.Println(err)
		os.Exit(2)
	}
	var fn *ssa.Function
	name := args[1]
	if strings.HasPrefix(name, "(") {
		i := strings.Index(name, ").")
		t := strings.TrimPrefix(name[1:i], "*")
		fn = p.Method(args[0], t, name[i+2:])
	} else {
		fn = p.Func(args[0], name)
	}
	if fn == nil {
		fmt.Println("not found")
		os.Exit(2)
	}
	for _, f := range zv.WithClosures(fn) {
		f.WriteTo(os.Stdout)
		for _, b := range f.Blocks {
			g := zv.AtomStrings(zv.GuardsOfBlock(b))
			sort.Strings(g)
			fmt.Printf("  block %d guards: %v\n", b.Index, g)
		}
	}
}

// selftest (thorough tier): every catalogued breaking change that this
// property's check is recorded to catch (seeded/matrix.json: sub-agent seeds
// and reverse fix patches) is applied to a scratch COPY of the repository
// (never to /repo) and the check is re-run on the copy in a child process;
// it must report a VIOLATION there. Patches that no longer apply to the
// current tree are skipped. Results go into the evidence; a miss is reported
// but does not change the verdict on /repo.
func selftest(pid, repo, verif string) map[string]any {
	res := map[string]any{}
	b, err := os.ReadFile(filepath.Join(verif, "seeded", "matrix.json"))
	if err != nil {
		res["selftest"] = "seeded/matrix.json not found"
		return res
	}
	var matrix map[string]struct {
		Violation []string `json:"violation"`
	}
	if json.Unmarshal(b, &matrix) != nil {
		res["selftest"] = "cannot parse matrix.json"
		return res
	}
	var names []string
	for n, r := range matrix {
		for _, v := range r.Violation {
			if v == pid {
				names = append(names, n)
			}
		}
	}
	sort.Strings(names)
	exe, _ := os.Executable()
	type out struct {
		name, status string
	}
	results := make([]out, len(names))
	sem := make(chan struct{}, 8)
	var wg sync.WaitGroup
	for i, n := range names {
		wg.Add(1)
		go func(i int, n string) {
			defer wg.Done()
			sem <- struct{}{}
			defer func() { <-sem }()
			patch := filepath.Join(verif, "seeded", n, "patch.diff")
			if strings.HasPrefix(n, "revert-") || strings.HasPrefix(n, "hand-") {
				patch = filepath.Join(verif, "mutants", n+".patch")
			}
			tmp, err := os.MkdirTemp("", "zapverif-selftest-")
			if err != nil {
				results[i] = out{n, "error: " + err.Error()}
				return
			}
			defer os.RemoveAll(tmp)
			cp := exec.Command("cp", "-r", repo, filepath.Join(tmp, "repo"))
			if err := cp.Run(); err != nil {
				results[i] = out{n, "error: copy failed"}
				return
			}
			scratch := filepath.Join(tmp, "repo")
			os.RemoveAll(filepath.Join(scratch, ".git"))
			ap := exec.Command("git", "apply", patch)
			ap.Dir = scratch
			if err := ap.Run(); err != nil {
				results[i] = out{n, "skipped: patch does not apply to the current tree"}
				return
			}
			tv := filepath.Join(tmp, "verif")
			os.MkdirAll(tv, 0o755)
			kf, _ := os.ReadFile(filepath.Join(verif, "known_findings.json"))
			os.WriteFile(filepath.Join(tv, "known_findings.json"), kf, 0o644)
			ch := exec.Command(exe, "check", pid, "--tier", "quick", "--repo", scratch, "--verif", tv)
			ch.Env = append(os.Environ(), "ZAPVERIF_NO_SELFTEST=1")
			o, _ := ch.CombinedOutput()
			if strings.Contains(string(o), "VIOLATION property="+pid) {
				results[i] = out{n, "detected"}
			} else {
				results[i] = out{n, "MISSED"}
			}
		}(i, n)
	}
	wg.Wait()
	detected, skipped := 0, 0
	var missed []string
	var rows []string
	for _, r := range results {
		rows = append(rows, r.name+": "+r.status)
		switch {
		case r.status == "detected":
			detected++
		case strings.HasPrefix(r.status, "skipped"):
			skipped++
		default:
			missed = append(missed, r.name)
		}
	}
	res["selftest_mutants_applied"] = len(names) - skipped
	res["selftest_mutants_detected"] = detected
	res["selftest_mutants_skipped"] = skipped
	res["selftest_missed"] = missed
	res["selftest_results"] = rows
	res["selftest_note"] = "each catalogued breaking change recorded for this property is applied to a scratch copy of the repository (not /repo) and the check must report a VIOLATION on it"
	if len(missed) > 0 {
		fmt.Printf("selftest: %d catalogued change(s) were NOT detected on a scratch copy: %v\n", len(missed), missed)
	}
	fmt.Printf("selftest %s: %d applied, %d detected, %d skipped\n", pid, len(names)-skipped, detected, skipped)
	// the behaviour-preserving refactorings catalogued for this property must leave the check quiet
	refs, _ := filepath.Glob(filepath.Join(verif, "refactors", pid+"-r*", "patch.diff"))
	sort.Strings(refs)
	rres := make([]out, len(refs))
	for i, patch := range refs {
		wg.Add(1)
		go func(i int, patch string) {
			defer wg.Done()
			sem <- struct{}{}
			defer func() { <-sem }()
			n := filepath.Base(filepath.Dir(patch))
			tmp, err := os.MkdirTemp("", "zapverif-selftest-")
			if err != nil {
				rres[i] = out{n, "error: " + err.Error()}
				return
			}
			defer os.RemoveAll(tmp)
			if err := exec.Command("cp", "-r", repo, filepath.Join(tmp, "repo")).Run(); err != nil {
				rres[i] = out{n, "error: copy failed"}
				return
			}
			scratch := filepath.Join(tmp, "repo")
			os.RemoveAll(filepath.Join(scratch, ".git"))
			ap := exec.Command("git", "apply", patch)
			ap.Dir = scratch
			if err := ap.Run(); err != nil {
				rres[i] = out{n, "skipped: patch does not apply to the current tree"}
				return
			}
			tv := filepath.Join(tmp, "verif")
			os.MkdirAll(tv, 0o755)
			kf, _ := os.ReadFile(filepath.Join(verif, "known_findings.json"))
			os.WriteFile(filepath.Join(tv, "known_findings.json"), kf, 0o644)
			ch := exec.Command(exe, "check", pid, "--tier", "quick", "--repo", scratch, "--verif", tv)
			ch.Env = append(os.Environ(), "ZAPVERIF_NO_SELFTEST=1")
			o, err := ch.CombinedOutput()
			if err == nil && !strings.Contains(string(o), "VIOLATION property=") {
				rres[i] = out{n, "quiet"}
			} else {
				rres[i] = out{n, "ALARM"}
			}
		}(i, patch)
	}
	wg.Wait()
	quiet, rskipped := 0, 0
	var alarms, rrows []string
	for _, r := range rres {
		rrows = append(rrows, r.name+": "+r.status)
		switch {
		case r.status == "quiet":
			quiet++
		case strings.HasPrefix(r.status, "skipped"):
			rskipped++
		default:
			alarms = append(alarms, r.name)
		}
	}
	res["selftest_refactors_applied"] = len(refs) - rskipped
	res["selftest_refactors_quiet"] = quiet
	res["selftest_refactor_alarms"] = alarms
	res["selftest_refactor_results"] = rrows
	if len(alarms) > 0 {
		fmt.Printf("selftest: the check raises an alarm on %d catalogued behaviour-preserving refactoring(s): %v\n", len(alarms), alarms)
	}
	fmt.Printf("selftest %s: %d refactorings applied, %d quiet\n", pid, len(refs)-rskipped, quiet)
	return res
}
