// zvrename: a development aid for the behaviour-preserving probes (scripts/field_probe.sh). It renames struct fields of
// a zap working tree consistently - the declaration, every selector, every keyed literal, test files included - using
// the type-checked program, so the result is the same program under other names.
//
//	zvrename DIR pkg.Type.field=new ...
package main

import (
	"fmt"
	"go/ast"
	"go/token"
	"go/types"
	"os"
	"os/exec"
	"path/filepath"
	"sort"
	"strings"

	"golang.org/x/tools/go/packages"
)

func main() {
	if len(os.Args) < 3 {
		fmt.Println("usage: zvrename DIR pkg.Type.field=new ...")
		os.Exit(2)
	}
	repo := os.Args[1]
	want := map[string]string{}
	localFiles := map[string]bool{}
	// rangeidx:<file>: every `for k, v := range xs` over a slice in the file becomes `for k := 0; k < len(xs); k++ { v := xs[k]`
	rangeFiles := map[string]bool{}
	for _, s := range os.Args[2:] {
		if strings.HasPrefix(s, "rangeidx:") {
			rangeFiles[filepath.Join(repo, strings.TrimPrefix(s, "rangeidx:"))] = true
			continue
		}
		if strings.HasPrefix(s, "locals:") {
			localFiles[filepath.Join(repo, strings.TrimPrefix(s, "locals:"))] = true
			continue
		}
		kv := strings.SplitN(s, "=", 2)
		if len(kv) != 2 || (strings.Count(kv[0], ".") != 2 && strings.Count(kv[0], ".") != 1) {
			fmt.Println("bad spec", s)
			os.Exit(2)
		}
		want[kv[0]] = kv[1]
	}
	env := append(os.Environ(), "GOFLAGS=-mod=mod", "GOPROXY=off", "GOSUMDB=off", "GOTOOLCHAIN=local", "GOWORK=off")
	cmd := exec.Command("go", "list", "./...")
	cmd.Dir = repo
	cmd.Env = env
	out, err := cmd.Output()
	if err != nil {
		fmt.Println("go list:", err)
		os.Exit(2)
	}
	patterns := append(strings.Fields(string(out)), "./...")
	fset := token.NewFileSet()
	pkgs, err := packages.Load(&packages.Config{Mode: packages.LoadAllSyntax, Dir: filepath.Join(repo, "exp"), Env: env, Fset: fset, Tests: true}, patterns...)
	if err != nil {
		fmt.Println(err)
		os.Exit(2)
	}
	type edit struct {
		off int
		old string
		new string
	}
	edits := map[string]map[int]edit{}
	used := map[string]bool{}
	isParamOrResult := map[*types.Var]bool{}
	specOf := func(o types.Object) (string, bool) {
		if fn, isFn := o.(*types.Func); isFn && fn.Pkg() != nil {
			// pkg.Type.method=new or pkg..func=new
			fn = fn.Origin()
			recv := ""
			if sig, ok := fn.Type().(*types.Signature); ok && sig.Recv() != nil {
				t := sig.Recv().Type()
				if pt, isP := t.(*types.Pointer); isP {
					t = pt.Elem()
				}
				if n, isN := types.Unalias(t).(*types.Named); isN {
					recv = n.Obj().Name()
				}
			}
			k := fn.Pkg().Name() + "." + recv + "." + fn.Name()
			if nn, ok := want[k]; ok {
				used[k] = true
				return nn, true
			}
			return "", false
		}
		// every local variable (not a parameter, result or field) declared in one of the files named with locals:
		if lv, isV := o.(*types.Var); isV && len(localFiles) > 0 && !lv.IsField() && lv.Pkg() != nil && lv.Parent() != nil && lv.Parent() != lv.Pkg().Scope() && lv.Name() != "_" {
			pos := fset.Position(lv.Pos())
			if localFiles[pos.Filename] && !isParamOrResult[lv] {
				return lv.Name() + "Lv", true
			}
		}
		// pkg.Name=new: a package-level type or variable
		switch x := o.(type) {
		case *types.TypeName:
			if x.Pkg() != nil && x.Parent() == x.Pkg().Scope() {
				if nn, ok := want[x.Pkg().Name()+"."+x.Name()]; ok {
					used[x.Pkg().Name()+"."+x.Name()] = true
					return nn, true
				}
			}
			return "", false
		case *types.Const:
			// pkg.Name=new: a package-level constant
			if x.Pkg() != nil && x.Parent() == x.Pkg().Scope() {
				if nn, ok := want[x.Pkg().Name()+"."+x.Name()]; ok {
					used[x.Pkg().Name()+"."+x.Name()] = true
					return nn, true
				}
			}
			return "", false
		case *types.Var:
			if !x.IsField() && x.Pkg() != nil && x.Parent() == x.Pkg().Scope() {
				if nn, ok := want[x.Pkg().Name()+"."+x.Name()]; ok {
					used[x.Pkg().Name()+"."+x.Name()] = true
					return nn, true
				}
				return "", false
			}
		}
		v, ok := o.(*types.Var)
		if !ok || !v.IsField() || v.Embedded() || v.Pkg() == nil {
			return "", false
		}
		// find the named struct declaring it: by position inside a type spec of the package
		for k, nn := range want {
			parts := strings.Split(k, ".")
			if len(parts) != 3 || v.Pkg().Name() != parts[0] || v.Name() != parts[2] {
				continue
			}
			tn, _ := v.Pkg().Scope().Lookup(parts[1]).(*types.TypeName)
			if tn == nil {
				continue
			}
			st, _ := tn.Type().Underlying().(*types.Struct)
			if st == nil {
				continue
			}
			for i := 0; i < st.NumFields(); i++ {
				if st.Field(i).Pos() == v.Pos() {
					used[k] = true
					return nn, true
				}
			}
		}
		return "", false
	}
	for _, p0 := range pkgs {
		if p0.TypesInfo == nil {
			continue
		}
		for _, o := range p0.TypesInfo.Defs {
			if fn, ok := o.(*types.Func); ok {
				sig := fn.Type().(*types.Signature)
				for i := 0; i < sig.Params().Len(); i++ {
					isParamOrResult[sig.Params().At(i)] = true
				}
				for i := 0; i < sig.Results().Len(); i++ {
					isParamOrResult[sig.Results().At(i)] = true
				}
				if sig.Recv() != nil {
					isParamOrResult[sig.Recv()] = true
				}
			}
		}
		// the variable of a type switch is one object per clause without a declaration of its own: left alone
		for _, o := range p0.TypesInfo.Implicits {
			if v, ok := o.(*types.Var); ok {
				isParamOrResult[v] = true
			}
		}
		for e, tv := range p0.TypesInfo.Types {
			if fl, ok := e.(*ast.FuncLit); ok {
				if sig, ok := tv.Type.(*types.Signature); ok {
					_ = fl
					for i := 0; i < sig.Params().Len(); i++ {
						isParamOrResult[sig.Params().At(i)] = true
					}
					for i := 0; i < sig.Results().Len(); i++ {
						isParamOrResult[sig.Results().At(i)] = true
					}
				}
			}
		}
	}
	seen := map[*packages.Package]bool{}
	var visit func(p *packages.Package)
	visit = func(p *packages.Package) {
		if seen[p] || !strings.HasPrefix(p.PkgPath, "go.uber.org/zap") || p.TypesInfo == nil {
			return
		}
		seen[p] = true
		do := func(id *ast.Ident, o types.Object) {
			if o == nil {
				return
			}
			nn, ok := specOf(o)
			if !ok {
				return
			}
			pos := fset.Position(id.Pos())
			if !strings.HasPrefix(pos.Filename, repo) {
				return
			}
			if edits[pos.Filename] == nil {
				edits[pos.Filename] = map[int]edit{}
			}
			edits[pos.Filename][pos.Offset] = edit{pos.Offset, id.Name, nn}
		}
		for _, f := range p.Syntax {
			fname := fset.Position(f.Pos()).Filename
			if !rangeFiles[fname] {
				continue
			}
			src, err := os.ReadFile(fname)
			if err != nil {
				continue
			}
			ast.Inspect(f, func(n ast.Node) bool {
				rs, ok := n.(*ast.RangeStmt)
				if !ok || rs.Tok != token.DEFINE {
					return true
				}
				if _, isSlice := p.TypesInfo.TypeOf(rs.X).Underlying().(*types.Slice); !isSlice {
					return true
				}
				// the ranged expression is evaluated once: only plain variables and field chains the body does not assign
				root := rs.X
				for {
					if se, isSel := root.(*ast.SelectorExpr); isSel {
						root = se.X
						continue
					}
					break
				}
				rid, isId := root.(*ast.Ident)
				if !isId {
					return true
				}
				bad := false
				ast.Inspect(rs.Body, func(m ast.Node) bool {
					switch x := m.(type) {
					case *ast.FuncLit:
						bad = true
					case *ast.UnaryExpr:
						if x.Op == token.AND {
							bad = true
						}
					case *ast.AssignStmt:
						for _, l := range x.Lhs {
							ast.Inspect(l, func(q ast.Node) bool {
								if id, ok := q.(*ast.Ident); ok && id.Name == rid.Name {
									bad = true
								}
								return true
							})
						}
					}
					return true
				})
				if bad {
					return true
				}
				text := func(e ast.Node) string { return string(src[fset.Position(e.Pos()).Offset:fset.Position(e.End()).Offset]) }
				k := "zvI"
				if id, ok := rs.Key.(*ast.Ident); ok && id.Name != "_" {
					k = id.Name
				}
				xs := text(rs.X)
				hdr := "for " + k + " := 0; " + k + " < len(" + xs + "); " + k + "++ {"
				if id, ok := rs.Value.(*ast.Ident); ok && id.Name != "_" {
					hdr += "\n" + id.Name + " := " + xs + "[" + k + "]"
				}
				a, b := fset.Position(rs.Pos()).Offset, fset.Position(rs.Body.Lbrace).Offset+1
				if edits[fname] == nil {
					edits[fname] = map[int]edit{}
				}
				edits[fname][a] = edit{a, string(src[a:b]), hdr}
				return true
			})
		}
		for id, o := range p.TypesInfo.Defs {
			do(id, o)
		}
		for id, o := range p.TypesInfo.Uses {
			do(id, o)
		}
	}
	for _, p := range pkgs {
		visit(p)
	}
	for k := range want {
		if !used[k] {
			fmt.Println("no such field:", k)
			os.Exit(2)
		}
	}
	n := 0
	for file, es := range edits {
		b, err := os.ReadFile(file)
		if err != nil {
			fmt.Println(err)
			os.Exit(2)
		}
		var l []edit
		for _, e := range es {
			l = append(l, e)
		}
		sort.Slice(l, func(i, j int) bool { return l[i].off > l[j].off })
		for _, e := range l {
			if string(b[e.off:e.off+len(e.old)]) != e.old {
				fmt.Println("offset mismatch in", file)
				os.Exit(2)
			}
			b = append(b[:e.off:e.off], append([]byte(e.new), b[e.off+len(e.old):]...)...)
			n++
		}
		if err := os.WriteFile(file, b, 0o644); err != nil {
			fmt.Println(err)
			os.Exit(2)
		}
	}
	fmt.Printf("renamed %d identifiers in %d files\n", n, len(edits))
}
