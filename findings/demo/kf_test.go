// Demonstrations of the defects KF-1..KF-15 (DESIGN.md section 4). Each test
// fails on the original tree and passes once the corresponding "fix:" commit is
// present. They are documentation of the triage, NOT part of any registered
// check (the checks are static and never run zap).
package kfdemo

import (
	"fmt"
	"bytes"
	"encoding/json"
	"errors"
	"io"
	"log"
	"log/slog"
	"net/url"
	"strings"
	"sync"
	"testing"
	"time"

	"go.uber.org/zap"
	"go.uber.org/zap/exp/zapslog"
	"go.uber.org/zap/zapcore"
	"go.uber.org/zap/zapgrpc"
	"go.uber.org/zap/zaptest/observer"
)

func jsonCfg() zapcore.EncoderConfig {
	return zapcore.EncoderConfig{MessageKey: "msg", LevelKey: "level", TimeKey: "ts", CallerKey: "caller",
		EncodeLevel: zapcore.LowercaseLevelEncoder, EncodeTime: zapcore.EpochTimeEncoder,
		EncodeDuration: zapcore.NanosDurationEncoder, EncodeCaller: zapcore.ShortCallerEncoder}
}

func TestKF1TimeLayoutEscaped(t *testing.T) {
	cfg := jsonCfg()
	cfg.EncodeTime = zapcore.TimeEncoderOfLayout("2006 \"q\" \\x\t")
	enc := zapcore.NewJSONEncoder(cfg)
	buf, err := enc.EncodeEntry(zapcore.Entry{Time: time.Unix(0, 0).UTC(), Message: "m"}, []zapcore.Field{zap.Time("t", time.Unix(5, 0).In(time.FixedZone("a\"b", 3600)))})
	if err != nil {
		t.Fatal(err)
	}
	var m map[string]any
	if err := json.Unmarshal(buf.Bytes(), &m); err != nil {
		t.Fatalf("invalid JSON %q: %v", buf.String(), err)
	}
}

func TestKF2NilEncodeCaller(t *testing.T) {
	cfg := jsonCfg()
	cfg.EncodeCaller = nil
	enc := zapcore.NewJSONEncoder(cfg)
	buf, err := enc.EncodeEntry(zapcore.Entry{Message: "m", Caller: zapcore.EntryCaller{Defined: true, File: "f.go", Line: 1}}, nil)
	if err != nil {
		t.Fatal(err)
	}
	var m map[string]any
	if err := json.Unmarshal(buf.Bytes(), &m); err != nil {
		t.Fatalf("invalid JSON %q: %v", buf.String(), err)
	}
}

type sliceStringer []int

func (sliceStringer) String() string { return "s" }

func TestKF3EqualsNoPanic(t *testing.T) {
	a, b := zap.Stringer("k", sliceStringer{1}), zap.Stringer("k", sliceStringer{1})
	if !a.Equals(b) {
		t.Fatal("not equal")
	}
	c := zap.Inline(zap.DictObject(zap.Int("a", 1)))
	if !c.Equals(zap.Inline(zap.DictObject(zap.Int("a", 1)))) {
		t.Fatal("not equal")
	}
}

func TestKF4HookAfterAcceptingBranch(t *testing.T) {
	dbg, _ := observer.New(zapcore.DebugLevel)
	errc, _ := observer.New(zapcore.ErrorLevel)
	fired := 0
	tee := zapcore.NewTee(dbg, zapcore.RegisterHooks(errc, func(zapcore.Entry) error { fired++; return nil }))
	zap.New(tee).Info("x")
	if fired != 0 {
		t.Fatalf("hook fired %d times for an entry its core declined", fired)
	}
	zap.New(tee).Error("x")
	if fired != 1 {
		t.Fatalf("hook fired %d times, want 1", fired)
	}
}

func TestKF5TeeLevelInvalid(t *testing.T) {
	tee := zapcore.NewTee(zapcore.NewNopCore(), zapcore.NewNopCore())
	if got := zapcore.LevelOf(tee); got != zapcore.InvalidLevel {
		t.Fatalf("LevelOf = %v", got)
	}
}

func TestKF6GrpcFatallnDisabled(t *testing.T) {
	exited := false
	l := zap.New(zapcore.NewNopCore(), zap.WithFatalHook(hook{&exited}))
	zapgrpc.NewLogger(l).Fatalln("bye")
	if !exited {
		t.Fatal("fatal hook did not run")
	}
}

type hook struct{ b *bool }

func (h hook) OnWrite(*zapcore.CheckedEntry, []zapcore.Field) { *h.b = true }

func TestKF7LazyRace(t *testing.T) { // meaningful under -race
	core, _ := observer.New(zapcore.DebugLevel)
	l := zap.New(core).WithLazy(zap.Int("a", 1))
	var wg sync.WaitGroup
	for i := 0; i < 8; i++ {
		wg.Add(1)
		go func() { defer wg.Done(); l.Info("x") }()
	}
	wg.Wait()
}

type ptrStringer struct{ s string }

func (p *ptrStringer) String() string { return p.s }

func TestKF8StringersNil(t *testing.T) {
	enc := zapcore.NewMapObjectEncoder()
	zap.Stringers("k", []*ptrStringer{{"a"}, nil}).AddTo(enc)
	if got := enc.Fields["k"]; len(got.([]any)) != 2 {
		t.Fatalf("%v", enc.Fields)
	}
}

func TestKF9StdLogWriterCount(t *testing.T) {
	core, _ := observer.New(zapcore.DebugLevel)
	w := zap.NewStdLog(zap.New(core)).Writer()
	n, err := w.Write([]byte("  hello \n"))
	if n != 9 || err != nil {
		t.Fatalf("(%d,%v)", n, err)
	}
}

type fixedWriter struct{ n int }

func (f fixedWriter) Write(p []byte) (int, error) { return f.n, nil }
func (f fixedWriter) Sync() error                 { return nil }

func TestKF10MultiMin(t *testing.T) {
	ws := zapcore.NewMultiWriteSyncer(fixedWriter{0}, fixedWriter{5})
	if n, _ := ws.Write([]byte("hello")); n != 0 {
		t.Fatalf("n=%d", n)
	}
}

func slogJSON(t *testing.T, f func(h slog.Handler) slog.Handler) map[string]any {
	var b bytes.Buffer
	core := zapcore.NewCore(zapcore.NewJSONEncoder(zapcore.EncoderConfig{MessageKey: "msg"}), zapcore.AddSync(&b), zapcore.DebugLevel)
	slog.New(f(zapslog.NewHandler(core))).Info("m", "a", 1)
	var m map[string]any
	if err := json.Unmarshal(b.Bytes(), &m); err != nil {
		t.Fatal(err, b.String())
	}
	return m
}

func TestKF12EmptyGroupName(t *testing.T) {
	m := slogJSON(t, func(h slog.Handler) slog.Handler { return h.WithGroup("") })
	if _, ok := m[""]; ok || m["a"] == nil {
		t.Fatalf("%v", m)
	}
}

func TestKF13EmptyGroupAttr(t *testing.T) {
	m := slogJSON(t, func(h slog.Handler) slog.Handler { return h.WithAttrs([]slog.Attr{slog.Group("g")}) })
	if _, ok := m["g"]; ok {
		t.Fatalf("%v", m)
	}
	m = slogJSON(t, func(h slog.Handler) slog.Handler { return h.WithGroup("G").WithAttrs([]slog.Attr{slog.Group("e")}) })
	if g, _ := m["G"].(map[string]any); g == nil || g["e"] != nil {
		t.Fatalf("%v", m)
	}
}

type countSink struct {
	io.Writer
	closed *int
}

func (c countSink) Sync() error  { return nil }
func (c countSink) Close() error { *c.closed++; return nil }

func TestKF14BuildLeak(t *testing.T) {
	opened, closed := 0, 0
	if err := zap.RegisterSink("kfdemo", func(*url.URL) (zap.Sink, error) { opened++; return countSink{io.Discard, &closed}, nil }); err != nil {
		t.Fatal(err)
	}
	cfg := zap.NewProductionConfig()
	cfg.Level = zap.AtomicLevel{}
	cfg.OutputPaths = []string{"kfdemo://a"}
	cfg.ErrorOutputPaths = []string{"kfdemo://b"}
	_, err := cfg.Build()
	if err == nil {
		t.Fatal("expected error")
	}
	if opened != closed {
		t.Fatalf("opened %d closed %d", opened, closed)
	}
}

func TestKF15RedirectInvalidLevel(t *testing.T) {
	log.SetFlags(log.Lshortfile)
	log.SetPrefix("p")
	defer func() { log.SetFlags(log.LstdFlags); log.SetPrefix("") }()
	_, err := zap.RedirectStdLogAt(zap.NewNop(), zapcore.Level(42))
	if err == nil {
		t.Fatal("expected error")
	}
	if log.Flags() != log.Lshortfile || log.Prefix() != "p" {
		t.Fatalf("flags=%d prefix=%q", log.Flags(), log.Prefix())
	}
}

var _ = errors.New
var _ = strings.ToUpper

// KF-11 is an OPEN finding (recorded, not repaired): this test passes while the
// deviation is present and documents the failing input.
func TestKF11OpenInfofEmptyTemplate(t *testing.T) {
	core, logs := observer.New(zapcore.DebugLevel)
	zap.New(core).Sugar().Infof("", 1)
	got := logs.All()[0].Message
	want := fmt.Sprintf("", 1) //nolint:govet
	if got == want {
		t.Fatalf("KF-11 no longer reproduces (message %q): remove it from known_findings.json", got)
	}
	t.Logf("KF-11: Infof(\"\", 1) logs %q, fmt.Sprintf(\"\", 1) is %q", got, want)
}

// KF-16 is an OPEN finding (recorded, not repaired).
func TestKF16OpenEpochEncodersOverflow(t *testing.T) {
	far := time.Date(3000, 1, 2, 3, 4, 5, 6, time.UTC)
	for name, te := range map[string]zapcore.TimeEncoder{"epoch": zapcore.EpochTimeEncoder, "millis": zapcore.EpochMillisTimeEncoder, "nanos": zapcore.EpochNanosTimeEncoder, "nil": nil} {
		cfg := jsonCfg()
		cfg.EncodeTime = te
		buf, err := zapcore.NewJSONEncoder(cfg).EncodeEntry(zapcore.Entry{Message: "m"}, []zapcore.Field{zap.Time("t", far)})
		if err != nil {
			t.Fatal(err)
		}
		var m map[string]any
		if err := json.Unmarshal(buf.Bytes(), &m); err != nil {
			t.Fatal(err)
		}
		got, _ := m["t"].(float64)
		if got > 0 {
			t.Fatalf("KF-16 no longer reproduces for %s (t=%v): update known_findings.json", name, m["t"])
		}
		t.Logf("KF-16 [%s]: year-3000 time is emitted as %v (true seconds since epoch: %d)", name, m["t"], far.Unix())
	}
}
